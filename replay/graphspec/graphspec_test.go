package graph

// Bounded replay/search harness for C19 (labelled "bounded" in the evidence):
// operation sequences over <= 3 vertex keys against a plain adjacency model.
// Injected into package graph with `go test -overlay`; nothing is written to /repo.

import (
	"fmt"
	"math/rand"
	"os"
	"sort"
	"strconv"
	"testing"
)

type hv struct{ id, tag int }

func (h hv) Hashcode() interface{} { return h.id }

type gmodel struct {
	rep map[int]hv
	w   map[[2]int]int
}

func newModel() *gmodel { return &gmodel{rep: map[int]hv{}, w: map[[2]int]int{}} }
func (m *gmodel) clone() *gmodel {
	c := newModel()
	for k, v := range m.rep {
		c.rep[k] = v
	}
	for k, v := range m.w {
		c.w[k] = v
	}
	return c
}

// executable form of the representation invariant wf (contracts file)
func checkWF(g *Graph) error {
	if g.adjacencyOut == nil && g.adjacencyIn == nil && g.hash == nil {
		return nil
	}
	if g.adjacencyOut == nil || g.adjacencyIn == nil || g.hash == nil {
		return fmt.Errorf("partially nil graph")
	}
	if len(g.adjacencyOut) != len(g.hash) || len(g.adjacencyIn) != len(g.hash) {
		return fmt.Errorf("domains differ: out=%d in=%d hash=%d", len(g.adjacencyOut), len(g.adjacencyIn), len(g.hash))
	}
	for k, v := range g.hash {
		if hashcode(v) != k {
			return fmt.Errorf("rep of %v has hashcode %v", k, hashcode(v))
		}
		if g.adjacencyOut[k] == nil || g.adjacencyIn[k] == nil {
			return fmt.Errorf("nil inner map for %v", k)
		}
	}
	for a, m := range g.adjacencyOut {
		for b, w := range m {
			if _, ok := g.hash[b]; !ok {
				return fmt.Errorf("edge %v->%v to missing vertex", a, b)
			}
			w2, ok := g.adjacencyIn[b][a]
			if !ok || w2 != w {
				return fmt.Errorf("out edge %v->%v (%d) not mirrored (in: %v %d)", a, b, w, ok, w2)
			}
		}
	}
	for b, m := range g.adjacencyIn {
		for a := range m {
			if _, ok := g.adjacencyOut[a][b]; !ok {
				return fmt.Errorf("in edge %v->%v not mirrored", a, b)
			}
		}
	}
	return nil
}

func sortedIDs(vs []Vertex) []int {
	var out []int
	for _, v := range vs {
		out = append(out, v.(hv).id*100+v.(hv).tag)
	}
	sort.Ints(out)
	return out
}

// checkView compares the graph's observable view with the model (transposed if rev).
func checkView(g *Graph, m *gmodel, rev bool, keys int) error {
	if err := checkWF(g); err != nil {
		return err
	}
	var want []int
	for _, v := range m.rep {
		want = append(want, v.id*100+v.tag)
	}
	sort.Ints(want)
	if got := sortedIDs(g.Vertices()); fmt.Sprint(got) != fmt.Sprint(want) {
		return fmt.Errorf("Vertices=%v want %v", got, want)
	}
	for a := 0; a < keys; a++ {
		v := g.Vertex(a)
		if r, ok := m.rep[a]; ok {
			if v != Vertex(r) {
				return fmt.Errorf("Vertex(%d)=%v want %v", a, v, r)
			}
		} else if v != nil {
			return fmt.Errorf("Vertex(%d)=%v want nil", a, v)
		}
		var wantOut, wantIn []int
		for e := range m.w {
			x, y := e[0], e[1]
			if rev {
				x, y = y, x
			}
			if x == a {
				wantOut = append(wantOut, m.rep[y].id*100+m.rep[y].tag)
			}
			if y == a {
				wantIn = append(wantIn, m.rep[x].id*100+m.rep[x].tag)
			}
		}
		sort.Ints(wantOut)
		sort.Ints(wantIn)
		out, in := g.OutEdges(hv{a, 0}), g.InEdges(hv{a, 0})
		if fmt.Sprint(sortedIDs(out)) != fmt.Sprint(wantOut) {
			return fmt.Errorf("OutEdges(%d)=%v want %v", a, sortedIDs(out), wantOut)
		}
		if fmt.Sprint(sortedIDs(in)) != fmt.Sprint(wantIn) {
			return fmt.Errorf("InEdges(%d)=%v want %v", a, sortedIDs(in), wantIn)
		}
		if (len(wantOut) == 0) != (out == nil) || (len(wantIn) == 0) != (in == nil) {
			return fmt.Errorf("nil-iff-empty violated at %d", a)
		}
		// weights
		for e, w := range m.w {
			x, y := e[0], e[1]
			if rev {
				x, y = y, x
			}
			if g.adjacencyOut[x][y] != w {
				return fmt.Errorf("weight %d->%d = %d want %d", x, y, g.adjacencyOut[x][y], w)
			}
		}
	}
	return nil
}

type gop struct {
	kind    int // 0 Add 1 AddOverwrite 2 Remove 3 AddEdgeWeighted 4 RemoveEdge 5 switch-to-copy 6 switch-to-reverse 7 AddEdge
	a, b, w int
}

func (o gop) String() string {
	return [...]string{"Add", "AddOverwrite", "Remove", "AddEdgeWeighted", "RemoveEdge", "Copy", "Reverse", "AddEdge"}[o.kind] + fmt.Sprintf("(%d,%d,%d)", o.a, o.b, o.w)
}

func alphabet(keys int) []gop {
	var ops []gop
	for a := 0; a < keys; a++ {
		ops = append(ops, gop{0, a, 0, 1}, gop{0, a, 0, 2}, gop{1, a, 0, 3}, gop{2, a, 0, 0})
		for b := 0; b < keys; b++ {
			ops = append(ops, gop{3, a, b, 7}, gop{7, a, b, 1}, gop{4, a, b, 0})
		}
	}
	ops = append(ops, gop{kind: 5}, gop{kind: 6})
	return ops
}

// runSeq executes a sequence on the real Graph and on the model.
func runSeq(seq []gop, keys int) error {
	g := &Graph{}
	m := newModel()
	rev := false
	var frozen []*Graph // originals of copies: must never change again
	var frozenM []*gmodel
	var frozenRev []bool
	for i, op := range seq {
		a, b := op.a, op.b
		switch op.kind {
		case 0:
			g.Add(hv{a, op.w})
			if _, ok := m.rep[a]; !ok {
				m.rep[a] = hv{a, op.w}
			}
		case 1:
			g.AddOverwrite(hv{a, op.w})
			m.rep[a] = hv{a, op.w}
		case 2:
			g.Remove(hv{a, 9})
			delete(m.rep, a)
			for e := range m.w {
				if e[0] == a || e[1] == a {
					delete(m.w, e)
				}
			}
		case 3, 7:
			_, oka := m.rep[a]
			_, okb := m.rep[b]
			if !oka || !okb {
				continue // precondition of AddEdge*: both endpoints present
			}
			if op.kind == 3 {
				g.AddEdgeWeighted(hv{a, 5}, hv{b, 6}, op.w)
			} else {
				g.AddEdge(hv{a, 5}, hv{b, 6})
			}
			if rev {
				m.w[[2]int{b, a}] = op.w
			} else {
				m.w[[2]int{a, b}] = op.w
			}
		case 4:
			g.RemoveEdge(hv{a, 5}, hv{b, 6})
			if rev {
				delete(m.w, [2]int{b, a})
			} else {
				delete(m.w, [2]int{a, b})
			}
		case 5:
			frozen = append(frozen, g)
			frozenM = append(frozenM, m.clone())
			frozenRev = append(frozenRev, rev)
			g = g.Copy()
			m = m.clone()
		case 6:
			orig := g
			g = g.Reverse()
			rev = !rev
			// reversing twice is the identity (same three maps)
			rr := g.Reverse()
			if len(orig.hash) > 0 || orig.hash != nil {
				if fmt.Sprintf("%p %p %p", rr.adjacencyOut, rr.adjacencyIn, rr.hash) != fmt.Sprintf("%p %p %p", orig.adjacencyOut, orig.adjacencyIn, orig.hash) {
					return fmt.Errorf("step %d: Reverse twice is not the identity", i)
				}
			}
			// shared state: a vertex added through the view is visible in the original
			probe := hv{keys, 0}
			g.Add(probe)
			if orig.Vertex(keys) == nil {
				return fmt.Errorf("step %d %v: reversed view does not share state with the original (vertex added through the view is invisible)", i, op)
			}
			g.Remove(probe)
		}
		if err := checkView(g, m, rev, keys); err != nil {
			return fmt.Errorf("step %d %v: %v", i, op, err)
		}
		for j, fg := range frozen {
			if err := checkView(fg, frozenM[j], frozenRev[j], keys); err != nil {
				return fmt.Errorf("step %d %v: original of copy %d changed: %v", i, op, j, err)
			}
		}
	}
	return nil
}

func TestVerifGraphSpec(t *testing.T) {
	tier := os.Getenv("VERIF_TIER")
	seed, _ := strconv.Atoi(os.Getenv("VERIF_SEED"))
	keys := 2
	maxLen := 3
	nRandom := 4000
	if tier == "thorough" {
		maxLen = 4
		nRandom = 100000
	}
	ops := alphabet(keys)
	count := 0
	var rec func(prefix []gop, n int)
	failed := false
	rec = func(prefix []gop, n int) {
		if failed {
			return
		}
		if len(prefix) > 0 {
			count++
			if err := runSeq(prefix, keys); err != nil {
				failed = true
				t.Errorf("FAILING-INPUT exhaustive sequence %v: %v", prefix, err)
				return
			}
		}
		if n == 0 {
			return
		}
		for _, o := range ops {
			rec(append(append([]gop(nil), prefix...), o), n-1)
		}
	}
	rec(nil, maxLen)
	rng := rand.New(rand.NewSource(int64(seed) + 1))
	ops3 := alphabet(3)
	for i := 0; i < nRandom && !failed; i++ {
		n := 4 + rng.Intn(9)
		seq := make([]gop, n)
		for j := range seq {
			seq[j] = ops3[rng.Intn(len(ops3))]
		}
		count++
		if err := runSeq(seq, 3); err != nil {
			failed = true
			t.Errorf("FAILING-INPUT random sequence %v: %v", seq, err)
		}
	}
	t.Logf("graphspec: %d sequences (exhaustive to length %d over %d ops, %d random)", count, maxLen, len(ops), nRandom)
}

package argmapper

// Bounded replay/search harness for C06 (labelled "bounded"): well-formed uses
// must return normally — no panic, no crash. Each scenario runs under recover;
// scenarios that could exhaust the stack run in a subprocess by the driver.

import (
	"errors"
	"fmt"
	"reflect"
	"testing"

	"github.com/hashicorp/go-hclog"
)

func noPanic(t *testing.T, name string, f func()) {
	t.Helper()
	defer func() {
		if r := recover(); r != nil {
			t.Errorf("FAILING-INPUT %s panicked: %v", name, r)
		}
	}()
	f()
}

type npA struct{ v int }
type npB struct{ v int }
type npC struct{ v int }

func TestVerifNoPanicPositional(t *testing.T) {
	// positional parameters / results may repeat a type
	noPanic(t, "func(a, b int) with Typed(3)", func() {
		f, err := NewFunc(func(a, b int) int { return a + b })
		if err != nil {
			t.Errorf("FAILING-INPUT NewFunc(func(a, b int) int) rejected: %v", err)
			return
		}
		r := f.Call(Typed(3))
		if r.Err() != nil {
			t.Errorf("FAILING-INPUT func(a, b int) with Typed(3): %v", r.Err())
		} else if r.Out(0) != 6 {
			t.Errorf("FAILING-INPUT func(a, b int) with Typed(3) returned %v", r.Out(0))
		}
	})
	noPanic(t, "converter func(string) (int, int)", func() {
		f := MustFunc(NewFunc(func(a int) int { return a }))
		r := f.Call(Typed("x"), Converter(func(s string) (int, int) { return 1, 2 }))
		if r.Err() != nil {
			t.Errorf("FAILING-INPUT converter with two results of one type: %v", r.Err())
		}
	})
	noPanic(t, "BuildFunc with repeated positional types", func() {
		in, err := NewValueSet([]Value{{Type: reflect.TypeOf(0)}, {Type: reflect.TypeOf("")}})
		if err != nil {
			t.Fatal(err)
		}
		f, err := BuildFunc(in, nil, func(in, out *ValueSet) error { return nil })
		if err != nil {
			t.Fatal(err)
		}
		if r := f.Call(Typed(1, "x")); r.Err() != nil {
			t.Errorf("FAILING-INPUT BuildFunc call: %v", r.Err())
		}
	})
	noPanic(t, "BuildFunc with nil input", func() {
		out, err := NewValueSet([]Value{{Name: "r", Type: reflect.TypeOf(0)}})
		if err != nil {
			t.Fatal(err)
		}
		f, err := BuildFunc(nil, out, func(in, out *ValueSet) error {
			out.Named("r").Value = reflect.ValueOf(5)
			return nil
		})
		if err != nil {
			t.Fatal(err)
		}
		if r := f.Call(); r.Err() != nil {
			t.Errorf("FAILING-INPUT BuildFunc with nil input: call failed: %v", r.Err())
		}
	})
	noPanic(t, "Redefine of func(a, b int)", func() {
		f := MustFunc(NewFunc(func(a, b int) int { return a + b }))
		if _, err := f.Redefine(); err != nil {
			_ = err
		}
	})
}

func TestVerifNoPanicMalformedOptions(t *testing.T) {
	noPanic(t, "malformed options", func() {
		f := MustFunc(NewFunc(func(a int) int { return a }))
		if r := f.Call(nil); r.Err() == nil {
			t.Errorf("FAILING-INPUT nil option accepted")
		}
		if r := f.Call(Typed(nil), Named("a", nil), NamedSubtype("a", nil, "s"), TypedSubtype(nil, "s")); r.Err() == nil {
			t.Errorf("FAILING-INPUT call with only nil values succeeded")
		}
		if r := f.Call(Typed(1), Converter(42)); r.Err() == nil {
			t.Errorf("FAILING-INPUT non-function converter accepted")
		}
		if r := f.Call(Typed(1), Converter(nil)); r.Err() == nil {
			t.Errorf("FAILING-INPUT nil converter accepted")
		}
		if r := f.Call(Typed(1), ConverterFunc(nil, nil)); r.Err() != nil {
			t.Errorf("FAILING-INPUT nil *Func converters must be ignored: %v", r.Err())
		}
	})
	noPanic(t, "generator reporting an error", func() {
		f := MustFunc(NewFunc(func(a int) int { return a }))
		r := f.Call(Typed("x"), ConverterGen(func(v Value) (*Func, error) { return nil, errors.New("generator failed") }))
		if r.Err() == nil {
			t.Errorf("FAILING-INPUT a failing generator did not produce an error result")
		}
	})
	noPanic(t, "generator returning nil", func() {
		f := MustFunc(NewFunc(func(a int) int { return a }))
		if r := f.Call(Typed(1), ConverterGen(func(v Value) (*Func, error) { return nil, nil })); r.Err() != nil {
			t.Errorf("FAILING-INPUT nil generator result: %v", r.Err())
		}
	})
}

func TestVerifNoPanicOnceStruct(t *testing.T) {
	type out struct {
		Struct
		A int
	}
	for _, ptr := range []bool{false, true} {
		ptr := ptr
		noPanic(t, fmt.Sprintf("FuncOnce converter returning struct (pointer=%v) used three times", ptr), func() {
			calls := 0
			var conv *Func
			if ptr {
				conv = MustFunc(NewFunc(func(s string) *out { calls++; return &out{A: 7} }, FuncOnce()))
			} else {
				conv = MustFunc(NewFunc(func(s string) out { calls++; return out{A: 7} }, FuncOnce()))
			}
			target := MustFunc(NewFunc(func(in struct {
				Struct
				A int
			}) int {
				return in.A
			}))
			for i := 0; i < 3; i++ {
				r := target.Call(Typed("x"), ConverterFunc(conv))
				if r.Err() != nil {
					t.Errorf("FAILING-INPUT use %d of a run-once converter: %v", i+1, r.Err())
					return
				}
				if r.Out(0) != 7 {
					t.Errorf("FAILING-INPUT use %d of a run-once converter returned %v", i+1, r.Out(0))
				}
			}
			if calls != 1 {
				t.Errorf("FAILING-INPUT run-once converter body ran %d times", calls)
			}
		})
	}
}

// cycleLogger turns unbounded recursion of the resolver into a recoverable panic.
type cycleLogger struct {
	hclog.Logger
	n     *int
	limit int
}

func (l cycleLogger) Trace(msg string, args ...interface{}) {
	if msg == "reachTarget" {
		*l.n++
		if *l.n > l.limit {
			panic(fmt.Sprintf("reachTarget entered %d times: unbounded recursion", *l.n))
		}
	}
}

type cyA struct{ S string }
type cyB struct{ S string }
type cyC struct{ S string }

// TestVerifNoPanicCycles: converter cycles, including mutually recursive
// multi-input converters, must make Call return (an error), not recurse forever.
func TestVerifNoPanicCycles(t *testing.T) {
	type sc struct {
		name  string
		convs []interface{}
		args  []Arg
	}
	scs := []sc{
		{"two one-input converters in a cycle, nothing supplied", []interface{}{func(b cyB) cyA { return cyA{} }, func(a cyA) cyB { return cyB{} }}, nil},
		{"mutual two-input converters, the shared second input supplied", []interface{}{func(b cyB, n int) cyA { return cyA{} }, func(a cyA, n int) cyB { return cyB{} }}, []Arg{Typed(7)}},
		{"mutual two-input converters, nothing supplied", []interface{}{func(b cyB, n int) cyA { return cyA{} }, func(a cyA, n int) cyB { return cyB{} }}, nil},
		{"three-cycle with a shared input", []interface{}{func(b cyB, n int) cyA { return cyA{} }, func(c cyC, n int) cyB { return cyB{} }, func(a cyA, n int) cyC { return cyC{} }}, []Arg{Typed(7)}},
		{"self-feeding two-input converter", []interface{}{func(a cyA, n int) cyA { return a }}, []Arg{Typed(7)}},
	}
	for _, s := range scs {
		func() {
			n := 0
			defer func() {
				if r := recover(); r != nil {
					t.Errorf("FAILING-INPUT cycles %s: %v", s.name, r)
				}
			}()
			target := MustFunc(NewFunc(func(a cyA) string { return a.S }))
			opts := []Arg{Logger(cycleLogger{Logger: hclog.NewNullLogger(), n: &n, limit: 400})}
			opts = append(opts, s.args...)
			for _, c := range s.convs {
				opts = append(opts, Converter(c))
			}
			r := target.Call(opts...)
			if r.Err() == nil {
				t.Errorf("FAILING-INPUT cycles %s: call succeeded although A cannot be produced", s.name)
			}
		}()
	}
}

// --- Redefine family -------------------------------------------------------

type rdConvIn1 struct {
	Struct
	A string
	N float64 `argmapper:",typeOnly"`
}
type rdConvIn2 struct {
	Struct
	A string
	C bool
}
type rdOutB struct {
	Struct
	B int
}
type rdTargetIn struct {
	Struct
	B int
}
type rdInX struct {
	Struct
	X float64
}
type rdOutA struct {
	Struct
	A string
}

// TestVerifNoPanicRedefine: Redefine over every combination of two targets,
// one or two converters out of six (mixing named and type-only inputs of
// different types) and every input filter over {string, float64, bool}
// (plus no filter) must return normally, and so must a call of the function
// it returns when given a value for every input it declares. Bounded: 2 x 21 x 9
// scenarios, three repetitions each (map order).
func TestVerifNoPanicRedefine(t *testing.T) {
	type named struct {
		name string
		v    interface{}
	}
	targets := []named{
		{"func(struct{B int}) int", func(in rdTargetIn) int { return in.B }},
		{"func(int) int", func(b int) int { return b }},
	}
	convs := []named{
		{"func(struct{A string; N float64 typeOnly}) struct{B int}", func(in rdConvIn1) rdOutB { return rdOutB{B: len(in.A) + int(in.N)} }},
		{"func(struct{A string; N float64 typeOnly}) int", func(in rdConvIn1) int { return len(in.A) + int(in.N) }},
		{"func(string, float64) int", func(s string, f float64) int { return len(s) + int(f) }},
		{"func(struct{A string; C bool}) struct{B int}", func(in rdConvIn2) rdOutB { return rdOutB{B: len(in.A)} }},
		{"func(bool) float64", func(b bool) float64 { return 1 }},
		{"func(struct{X float64}) struct{A string}", func(in rdInX) rdOutA { return rdOutA{A: "x"} }},
	}
	ftypes := []reflect.Type{reflect.TypeOf(""), reflect.TypeOf(float64(0)), reflect.TypeOf(true)}
	zero := func(v Value) Arg {
		z := reflect.Zero(v.Type).Interface()
		if v.Name != "" {
			return NamedSubtype(v.Name, z, v.Subtype)
		}
		return TypedSubtype(z, v.Subtype)
	}
	for _, tg := range targets {
		for i := 0; i < len(convs); i++ {
			for j := i; j < len(convs); j++ {
				for mask := 0; mask <= 8; mask++ {
					cs := []named{convs[i]}
					if j != i {
						cs = append(cs, convs[j])
					}
					desc := tg.name + " with"
					for _, c := range cs {
						desc += " Converter(" + c.name + ")"
					}
					if mask < 8 {
						desc += fmt.Sprintf(" FilterInput(types mask %03b of string/float64/bool)", mask)
					} else {
						desc += " no filter"
					}
					for rep := 0; rep < 3; rep++ {
						failed := false
						func() {
							defer func() {
								if r := recover(); r != nil {
									failed = true
									t.Errorf("FAILING-INPUT Redefine %s panicked: %v", desc, r)
								}
							}()
							f, err := NewFunc(tg.v)
							if err != nil {
								return
							}
							var opts []Arg
							for _, c := range cs {
								opts = append(opts, Converter(c.v))
							}
							if mask < 8 {
								var fs []FilterFunc
								for b, ft := range ftypes {
									if mask&(1<<uint(b)) != 0 {
										fs = append(fs, FilterType(ft))
									}
								}
								if len(fs) == 0 {
									opts = append(opts, FilterInput(func(Value) bool { return false }))
								} else {
									opts = append(opts, FilterInput(FilterOr(fs...)))
								}
							}
							rf, err := f.Redefine(opts...)
							if err != nil || rf == nil {
								return
							}
							var args []Arg
							for _, v := range rf.Input().Values() {
								args = append(args, zero(v))
							}
							_ = rf.Call(args...)
						}()
						if failed {
							break
						}
					}
				}
			}
		}
	}
}


type npCodeErr struct{ code int }

func (e *npCodeErr) Error() string { return fmt.Sprint("code ", e.code) }

type npCauseOut struct {
	Struct
	Cause error
}

// TestVerifNoPanicErrorShapes: result shapes around the error type. A target
// whose last result is a concrete type implementing error (not the interface)
// is redefined and the redefined function is called on a succeeding and on a
// failing conversion; Convert is asked for the error interface itself, with a
// converter producing a nil and a non-nil error value.
func TestVerifNoPanicErrorShapes(t *testing.T) {
	noPanic(t, "Redefine of func(struct{A int}) (int, *concreteErr), redefined call succeeds / fails in a converter", func() {
		f, err := NewFunc(func(in rdTargetInA) (int, *npCodeErr) { return in.A * 2, nil })
		if err != nil {
			t.Errorf("FAILING-INPUT error shapes: NewFunc rejected a concrete error result: %v", err)
			return
		}
		rf, err := f.Redefine(
			Converter(func(v string) (int, error) {
				if v == "bad" {
					return 0, errors.New("not a number")
				}
				return len(v), nil
			}),
			FilterInput(FilterType(reflect.TypeOf(""))),
		)
		if err != nil || rf == nil {
			return
		}
		if r := rf.Call(Typed("abc")); r.Err() != nil {
			t.Errorf("FAILING-INPUT error shapes: redefined call failed on the success path: %v", r.Err())
		}
		if r := rf.Call(Typed("bad")); r.Err() == nil {
			t.Errorf("FAILING-INPUT error shapes: redefined call reported no error although its converter failed")
		}
	})
	errT := reflect.TypeOf((*error)(nil)).Elem()
	for _, failed := range []bool{true, false} {
		failed := failed
		noPanic(t, fmt.Sprintf("Convert to the error interface, converter yields nil=%v", !failed), func() {
			v, err := Convert(errT, Typed(7), Converter(func(n int) npCauseOut {
				if failed {
					return npCauseOut{Cause: &npCodeErr{n}}
				}
				return npCauseOut{}
			}))
			if failed && err == nil {
				t.Errorf("FAILING-INPUT error shapes: Convert to error with a non-nil cause reported nothing (value %v)", v)
			}
			if !failed && err != nil {
				t.Errorf("FAILING-INPUT error shapes: Convert to error with a nil cause failed: %v", err)
			}
		})
	}
}

type rdTargetInA struct {
	Struct
	A int
}

package argmapper

// Bounded replay/search harness for C15 (labelled "bounded"): value sets are
// built from lists of distinct values (named / type-only, with / without
// subtype, mixed case names), read back, looked up, rendered as a signature
// and reloaded; functions are built from an input and an output set and run
// through Call, alone and feeding a downstream consumer.

import (
	"errors"
	"fmt"
	"os"
	"reflect"
	"strings"
	"testing"

	"github.com/hashicorp/go-hclog"
)

type rtA struct{ S string }
type rtB struct{ S string }
type rtC struct{ S string }

var rtTypes = []reflect.Type{reflect.TypeOf(rtA{}), reflect.TypeOf(rtB{}), reflect.TypeOf(rtC{})}

type rtSpec struct {
	name string
	typ  int
	sub  string
}

func (s rtSpec) value(payload string) reflect.Value {
	v := reflect.New(rtTypes[s.typ]).Elem()
	v.Field(0).SetString(payload)
	return v
}

func rtSets(thorough bool) [][]rtSpec {
	names := []string{"", "x", "Yy"}
	subs := []string{"", "a"}
	var all []rtSpec
	for _, n := range names {
		for ti := 0; ti < 2; ti++ {
			for _, s := range subs {
				all = append(all, rtSpec{n, ti, s})
			}
		}
	}
	var sets [][]rtSpec
	valid := func(set []rtSpec) bool {
		// distinct values: no repeated name, no repeated (type) among type-only values
		seenName := map[string]bool{}
		seenType := map[int]bool{}
		for _, v := range set {
			if v.name != "" {
				k := strings.ToLower(v.name)
				if seenName[k] {
					return false
				}
				seenName[k] = true
			} else {
				if seenType[v.typ] {
					return false
				}
				seenType[v.typ] = true
			}
		}
		return true
	}
	for i := range all {
		sets = append(sets, []rtSpec{all[i]})
		for j := range all {
			if j == i {
				continue
			}
			if s := []rtSpec{all[i], all[j]}; valid(s) {
				sets = append(sets, s)
			}
			if thorough {
				for k := range all {
					if k == i || k == j {
						continue
					}
					if s := []rtSpec{all[i], all[j], all[k]}; valid(s) {
						sets = append(sets, s)
					}
				}
			}
		}
	}
	return sets
}

func rtBuild(set []rtSpec) (*ValueSet, error) {
	var vs []Value
	for _, s := range set {
		vs = append(vs, Value{Name: s.name, Type: rtTypes[s.typ], Subtype: s.sub})
	}
	return NewValueSet(vs)
}

func TestVerifRoundTrip(t *testing.T) {
	thorough := os.Getenv("VERIF_TIER") == "thorough"
	n, failures := 0, 0
	fail := func(set []rtSpec, msg string) {
		failures++
		if failures <= 40 {
			t.Errorf("FAILING-INPUT roundtrip set=%v: %s", set, msg)
		}
	}
	for _, set := range rtSets(thorough) {
		n++
		vs, err := rtBuild(set)
		if err != nil {
			fail(set, "NewValueSet failed: "+err.Error())
			continue
		}
		got := vs.Values()
		if len(got) != len(set) {
			fail(set, fmt.Sprintf("reports %d values for %d", len(got), len(set)))
			continue
		}
		for i, s := range set {
			if got[i].Name != strings.ToLower(s.name) || got[i].Type != rtTypes[s.typ] || got[i].Subtype != s.sub {
				fail(set, fmt.Sprintf("value %d reported as %q/%v/%q", i, got[i].Name, got[i].Type, got[i].Subtype))
			}
			if s.name != "" {
				v := vs.Named(strings.ToLower(s.name))
				if v == nil || v.Type != rtTypes[s.typ] || v.Subtype != s.sub {
					fail(set, fmt.Sprintf("named value %q not found by its name", s.name))
				}
			} else {
				v := vs.Typed(rtTypes[s.typ])
				if v == nil || v.Name != "" || v.Type != rtTypes[s.typ] {
					fail(set, fmt.Sprintf("type-only value %v not found by its type", rtTypes[s.typ]))
				}
			}
			// by type and subtype when no other value shares both
			shared := false
			for j, o := range set {
				if j != i && o.typ == s.typ && o.sub == s.sub {
					shared = true
				}
			}
			if !shared {
				v := vs.TypedSubtype(rtTypes[s.typ], s.sub)
				if v == nil || v.Name != strings.ToLower(s.name) || v.Subtype != s.sub {
					fail(set, fmt.Sprintf("value %d not found by type and subtype", i))
				}
			}
		}
		// signature round trip
		sig := vs.Signature()
		for i, s := range set {
			v := vs.Values()[i]
			_ = v
			if s.name != "" {
				vs.Named(strings.ToLower(s.name)).Value = s.value(fmt.Sprintf("p%d", i))
			} else {
				vs.Typed(rtTypes[s.typ]).Value = s.value(fmt.Sprintf("p%d", i))
			}
		}
		sv := vs.SignatureValues()
		if len(sv) != len(sig) {
			fail(set, "SignatureValues and Signature differ in length")
			continue
		}
		vs2, _ := rtBuild(set)
		if err := vs2.FromSignature(sv); err != nil {
			fail(set, "FromSignature failed: "+err.Error())
			continue
		}
		for i := range set {
			a, b := vs.Values()[i], vs2.Values()[i]
			if !b.Value.IsValid() || a.Value.Interface() != b.Value.Interface() {
				fail(set, fmt.Sprintf("value %d not restored from the signature", i))
			}
		}
		// a set that already holds (other) values must be overwritten by FromSignature
		vs3, _ := rtBuild(set)
		for i, s := range set {
			if s.name != "" {
				vs3.Named(strings.ToLower(s.name)).Value = s.value(fmt.Sprintf("q%d", i))
			} else {
				vs3.Typed(rtTypes[s.typ]).Value = s.value(fmt.Sprintf("q%d", i))
			}
		}
		if err := vs.FromSignature(vs3.SignatureValues()); err == nil {
			for i := range set {
				if vs.Values()[i].Value.Interface() != vs3.Values()[i].Value.Interface() {
					fail(set, "FromSignature kept a stale value")
				}
			}
		}
	}
	t.Logf("value-set scenarios run: %d, failing: %d", n, failures)
}

// TestVerifBuildFunc: a function built from an input and an output set hands
// its callback exactly the injected values and delivers exactly the outputs
// (or the error) the callback produced, to the caller and downstream.
func TestVerifBuildFunc(t *testing.T) {
	thorough := os.Getenv("VERIF_TIER") == "thorough"
	n, failures := 0, 0
	fail := func(in, out []rtSpec, msg string) {
		failures++
		if failures <= 40 {
			t.Errorf("FAILING-INPUT buildfunc in=%v out=%v: %s", in, out, msg)
		}
	}
	sets := rtSets(false)
	if !thorough && len(sets) > 40 {
		var pick [][]rtSpec
		for i := 0; i < len(sets); i += len(sets) / 40 {
			pick = append(pick, sets[i])
		}
		sets = pick
	}
	outSets := [][]rtSpec{{{"", 2, ""}}, {{"res", 2, ""}}, {{"res", 2, "a"}}, {{"res", 2, ""}, {"", 2, ""}}}
	for _, in := range sets {
		// two inputs of one Go type leave the injection of a type-only one ambiguous (C03): skip
		ambiguous := false
		for a := range in {
			for b := range in {
				if a != b && in[a].typ == in[b].typ && (in[a].name == "" || in[b].name == "") {
					ambiguous = true
				}
			}
		}
		if ambiguous {
			continue
		}
		for _, out := range outSets {
			for _, wantErr := range []bool{false, true} {
				n++
				inVS, err1 := rtBuild(in)
				outVS, err2 := rtBuild(out)
				if err1 != nil || err2 != nil {
					continue
				}
				boom := errors.New("boom")
				var seen []string
				f, err := BuildFunc(inVS, outVS, func(i, o *ValueSet) error {
					for k, s := range in {
						var v *Value
						if s.name != "" {
							v = i.Named(strings.ToLower(s.name))
						} else {
							v = i.Typed(rtTypes[s.typ])
						}
						if v == nil || !v.Value.IsValid() {
							seen = append(seen, fmt.Sprintf("%d:<missing>", k))
							continue
						}
						seen = append(seen, fmt.Sprintf("%d:%s", k, v.Value.Field(0).String()))
					}
					if wantErr {
						return boom
					}
					for k, s := range out {
						val := s.value(fmt.Sprintf("o%d", k))
						if s.name != "" {
							o.Named(strings.ToLower(s.name)).Value = val
						} else {
							o.Typed(rtTypes[s.typ]).Value = val
						}
					}
					return nil
				})
				if err != nil {
					fail(in, out, "BuildFunc failed: "+err.Error())
					continue
				}
				args := []Arg{Logger(hclog.NewNullLogger())}
				var want []string
				for k, s := range in {
					p := fmt.Sprintf("i%d", k)
					want = append(want, fmt.Sprintf("%d:%s", k, p))
					val := s.value(p).Interface()
					switch {
					case s.name != "" && s.sub != "":
						args = append(args, NamedSubtype(s.name, val, s.sub))
					case s.name != "":
						args = append(args, Named(s.name, val))
					case s.sub != "":
						args = append(args, TypedSubtype(val, s.sub))
					default:
						args = append(args, Typed(val))
					}
				}
				// downstream consumer of the first output
				var downstream string
				consumerIn := []rtSpec{out[0]}
				cvs, _ := rtBuild(consumerIn)
				consumer, _ := BuildFunc(cvs, nil, func(i, o *ValueSet) error {
					var v *Value
					if out[0].name != "" {
						v = i.Named(strings.ToLower(out[0].name))
					} else {
						v = i.Typed(rtTypes[out[0].typ])
					}
					if v != nil && v.Value.IsValid() {
						downstream = v.Value.Field(0).String()
					}
					return nil
				})
				r := f.Call(args...)
				if strings.Join(seen, ",") != strings.Join(want, ",") {
					fail(in, out, fmt.Sprintf("callback saw %v, injected %v", seen, want))
				}
				if wantErr {
					if r.Err() != boom {
						fail(in, out, fmt.Sprintf("callback's error not delivered: %v", r.Err()))
					}
					continue
				}
				if r.Err() != nil {
					fail(in, out, "call failed: "+strings.Split(r.Err().Error(), "\n")[0])
					continue
				}
				seen = nil
				cr := consumer.Call(append(args, ConverterFunc(f))...)
				if cr.Err() != nil {
					fail(in, out, "downstream call failed: "+strings.Split(cr.Err().Error(), "\n")[0])
				} else if downstream != "o0" {
					fail(in, out, fmt.Sprintf("downstream consumer received %q instead of the produced output", downstream))
				}
			}
		}
	}
	t.Logf("build-func scenarios run: %d, failing: %d", n, failures)
}

type rtStringer struct{ s string }

func (s rtStringer) String() string { return s.s }

// TestVerifRoundTripInterfaces: values whose declared type is an interface
// (error, fmt.Stringer, interface{}) and whose Value holds a concrete dynamic
// value — named and type-only, in lifted and struct form — survive
// SignatureValues/FromSignature, and a built function hands them on.
func TestVerifRoundTripInterfaces(t *testing.T) {
	ifaces := []struct {
		typ reflect.Type
		val interface{}
	}{
		{reflect.TypeOf((*fmt.Stringer)(nil)).Elem(), rtStringer{"hello"}},
		{reflect.TypeOf((*error)(nil)).Elem(), errors.New("payload")},
		{reflect.TypeOf((*interface{})(nil)).Elem(), 42},
	}
	for _, it := range ifaces {
		for _, name := range []string{"", "v"} {
			for _, withOther := range []bool{false, true} {
				desc := fmt.Sprintf("interface value type=%v name=%q other=%v", it.typ, name, withOther)
				spec := []Value{{Name: name, Type: it.typ}}
				if withOther {
					spec = append(spec, Value{Name: "n", Type: reflect.TypeOf(0)})
				}
				vs, err := NewValueSet(spec)
				if err != nil {
					t.Errorf("FAILING-INPUT roundtrip %s: NewValueSet failed: %v", desc, err)
					continue
				}
				get := func(s *ValueSet) *Value {
					if name != "" {
						return s.Named(name)
					}
					return s.Typed(it.typ)
				}
				if get(vs) == nil {
					t.Errorf("FAILING-INPUT roundtrip %s: value not found", desc)
					continue
				}
				get(vs).Value = reflect.ValueOf(it.val)
				if err := vs.FromSignature(vs.SignatureValues()); err != nil {
					t.Errorf("FAILING-INPUT roundtrip %s: FromSignature failed: %v", desc, err)
					continue
				}
				if v := get(vs); v == nil || !v.Value.IsValid() || !v.Value.CanInterface() || v.Value.Interface() != it.val {
					t.Errorf("FAILING-INPUT roundtrip %s: the stored value was not restored by FromSignature(SignatureValues())", desc)
				}
				// as the output of a built function
				out, err := NewValueSet([]Value{{Name: name, Type: it.typ}})
				if err != nil {
					continue
				}
				f, err := BuildFunc(nil, out, func(in, out *ValueSet) error {
					get(out).Value = reflect.ValueOf(it.val)
					return nil
				})
				if err != nil {
					t.Errorf("FAILING-INPUT roundtrip %s: BuildFunc failed: %v", desc, err)
					continue
				}
				r := f.Call(Logger(hclog.NewNullLogger()))
				if r.Err() != nil {
					t.Errorf("FAILING-INPUT roundtrip %s: built function failed: %v", desc, r.Err())
					continue
				}
				get(out).Value = reflect.Value{}
				if err := out.FromResult(r); err != nil {
					t.Errorf("FAILING-INPUT roundtrip %s: FromResult failed: %v", desc, err)
					continue
				}
				if v := get(out); v == nil || !v.Value.IsValid() || v.Value.Interface() != it.val {
					t.Errorf("FAILING-INPUT roundtrip %s: the caller of the built function did not get the value its callback produced", desc)
				}
			}
		}
	}
}

type rtPtrOut struct {
	Struct
	A int
	B string `argmapper:",typeOnly"`
}

// TestVerifRoundTripPointerStruct: a function may return its result struct by
// value, by pointer or as a nil pointer (the call machinery accepts all three);
// loading the Result into the function's output set must give the same values.
func TestVerifRoundTripPointerStruct(t *testing.T) {
	cases := []struct {
		name string
		fn   interface{}
		a    int
		b    string
	}{
		{"func() struct", func() rtPtrOut { return rtPtrOut{A: 5, B: "x"} }, 5, "x"},
		{"func() *struct", func() *rtPtrOut { return &rtPtrOut{A: 5, B: "x"} }, 5, "x"},
		{"func() (*struct)(nil)", func() *rtPtrOut { return nil }, 0, ""},
		{"func() (*struct, error)", func() (*rtPtrOut, error) { return &rtPtrOut{A: 7, B: "y"}, nil }, 7, "y"},
	}
	for _, c := range cases {
		func() {
			defer func() {
				if r := recover(); r != nil {
					t.Errorf("FAILING-INPUT roundtrip FromResult of %s panicked: %v", c.name, r)
				}
			}()
			f, err := NewFunc(c.fn)
			if err != nil {
				t.Errorf("FAILING-INPUT roundtrip %s: NewFunc failed: %v", c.name, err)
				return
			}
			r := f.Call(Logger(hclog.NewNullLogger()))
			if r.Err() != nil {
				t.Errorf("FAILING-INPUT roundtrip %s: call failed: %v", c.name, r.Err())
				return
			}
			out := f.Output()
			if err := out.FromResult(r); err != nil {
				t.Errorf("FAILING-INPUT roundtrip %s: FromResult failed: %v", c.name, err)
				return
			}
			a, b := out.Named("a"), out.Typed(reflect.TypeOf(""))
			if a == nil || b == nil || !a.Value.IsValid() || !b.Value.IsValid() || a.Value.Interface() != c.a || b.Value.Interface() != c.b {
				t.Errorf("FAILING-INPUT roundtrip %s: FromResult did not load the returned values", c.name)
			}
		}()
	}
}

// TestVerifBuildFuncSequence: one built function called repeatedly with a
// callback that succeeds, fails and succeeds again (several patterns): every
// call reports exactly what its own callback invocation returned — outputs or
// that error — independent of earlier calls.
func TestVerifBuildFuncSequence(t *testing.T) {
	in, err := NewValueSet([]Value{{Name: "n", Type: reflect.TypeOf(0)}})
	if err != nil {
		t.Fatal(err)
	}
	out, err := NewValueSet([]Value{{Name: "r", Type: reflect.TypeOf(0)}})
	if err != nil {
		t.Fatal(err)
	}
	for _, pattern := range [][]int{{1, -1, 2}, {-1, 3}, {4, 5, -2, -3, 6}, {-1, -2, 7, 8}} {
		f, err := BuildFunc(in, out, func(in, out *ValueSet) error {
			n := in.Named("n").Value.Interface().(int)
			if n < 0 {
				return fmt.Errorf("negative input: %d", n)
			}
			out.Named("r").Value = reflect.ValueOf(n * 10)
			return nil
		})
		if err != nil {
			t.Errorf("FAILING-INPUT buildfunc sequence %v: BuildFunc failed: %v", pattern, err)
			continue
		}
		for i, n := range pattern {
			r := f.Call(Logger(hclog.NewNullLogger()), Named("n", n))
			switch {
			case n < 0 && (r.Err() == nil || r.Err().Error() != fmt.Sprintf("negative input: %d", n)):
				t.Errorf("FAILING-INPUT buildfunc sequence %v: call %d (n=%d) reported %v, want this call's own error", pattern, i, n, r.Err())
			case n >= 0 && r.Err() != nil:
				t.Errorf("FAILING-INPUT buildfunc sequence %v: call %d (n=%d) failed with %v although its callback returned nil", pattern, i, n, r.Err())
			case n >= 0:
				res := f.Output()
				if err := res.FromResult(r); err != nil || res.Named("r") == nil || res.Named("r").Value.Interface() != n*10 {
					t.Errorf("FAILING-INPUT buildfunc sequence %v: call %d (n=%d) did not return %d", pattern, i, n, n*10)
				}
			}
		}
	}
}

package argmapper

// Bounded replay/search harness (labelled "bounded") for the call-level
// properties C02 C04 C10 C11 C17: scenario families through the real
// Call/Convert with recording function bodies. Injected with `go test -overlay`.

import (
	"errors"
	"fmt"
	"io"
	"reflect"
	"testing"

	"github.com/hashicorp/go-hclog"
)

// depthLogger turns unbounded recursion of the resolver into a recoverable
// panic: reachTarget traces its name on every entry.
type depthLogger struct {
	hclog.Logger
	n     *int
	limit int
}

func (l depthLogger) Trace(msg string, args ...interface{}) {
	if msg == "reachTarget" {
		*l.n++
		if *l.n > l.limit {
			panic(fmt.Sprintf("reachTarget entered %d times: unbounded recursion", *l.n))
		}
	}
}

func boundedLogger(limit int) Arg {
	n := 0
	return Logger(depthLogger{Logger: hclog.New(&hclog.LoggerOptions{Output: io.Discard}), n: &n, limit: limit})
}

type cA struct{ v int }
type cB struct{ v int }
type cC struct{ v int }
type cD struct{ v int }
type myErr struct{ code int }

func (e *myErr) Error() string { return fmt.Sprint("myErr", e.code) }

type zeroErr struct{}

func (zeroErr) Error() string { return "zeroErr" }

func guard(t *testing.T, name string, f func()) {
	t.Helper()
	defer func() {
		if r := recover(); r != nil {
			t.Errorf("FAILING-INPUT %s panicked: %v", name, r)
		}
	}()
	f()
}

// ---------------------------------------------------------------- C17
func TestVerifC17ResultPartition(t *testing.T) {
	e1 := errors.New("final")
	cases := []struct {
		name string
		fn   interface{}
		len  int
		outs []interface{}
		err  error
	}{
		{"no results", func(a int) {}, 0, nil, nil},
		{"only error nil", func(a int) error { return nil }, 0, nil, nil},
		{"only error", func(a int) error { return e1 }, 0, nil, e1},
		{"value and nil error", func(a int) (string, error) { return "x", nil }, 1, []interface{}{"x"}, nil},
		{"value and error", func(a int) (string, error) { return "x", e1 }, 1, []interface{}{"x"}, e1},
		{"two values", func(a int) (string, bool) { return "x", true }, 2, []interface{}{"x", true}, nil},
		{"error not final", func(a int) (error, string) { return e1, "y" }, 2, []interface{}{e1, "y"}, nil},
		{"error twice", func(a int) (error, error) { return e1, nil }, 1, []interface{}{e1}, nil},
		{"concrete error type final", func(a int) (string, *myErr) { return "x", &myErr{3} }, 2, nil, nil},
		{"final interface{} holding an error", func(a int) (int, interface{}) { return 5, e1 }, 2, []interface{}{5, e1}, nil},
		{"zero-valued struct error", func(a int) (int, error) { return 5, zeroErr{} }, 1, []interface{}{5}, zeroErr{}},
		{"typed nil pointer error", func(a int) (int, error) { var p *myErr; return 5, p }, 1, []interface{}{5}, (*myErr)(nil)},
	}
	for _, c := range cases {
		c := c
		guard(t, c.name, func() {
			f, err := NewFunc(c.fn)
			if err != nil {
				t.Errorf("FAILING-INPUT %s: NewFunc: %v", c.name, err)
				return
			}
			r := f.Call(Typed(1))
			if r.Len() != c.len {
				t.Errorf("FAILING-INPUT %s: Len()=%d want %d", c.name, r.Len(), c.len)
			}
			for i, w := range c.outs {
				if i < r.Len()+1 && i < len(c.outs) {
					func() {
						defer func() { recover() }()
						if got := r.Out(i); got != w {
							t.Errorf("FAILING-INPUT %s: Out(%d)=%v want %v", c.name, i, got, w)
						}
					}()
				}
			}
			if c.err == nil {
				if r.Err() != nil {
					t.Errorf("FAILING-INPUT %s: Err()=%v want nil", c.name, r.Err())
				}
			} else if r.Err() != c.err {
				t.Errorf("FAILING-INPUT %s: Err()=%v want %v", c.name, r.Err(), c.err)
			}
		})
	}
	// resolution failure: length 0 and non-nil error
	guard(t, "resolution failure", func() {
		f := MustFunc(NewFunc(func(a cA) (int, string) { return 1, "x" }))
		r := f.Call(Typed(1))
		if r.Len() != 0 || r.Err() == nil {
			t.Errorf("FAILING-INPUT unsatisfiable call: Len()=%d Err()=%v", r.Len(), r.Err())
		}
	})
	// repeated use of a run-once function as converter, then directly: raw outputs intact
	guard(t, "once function outputs stay intact", func() {
		conv := MustFunc(NewFunc(func(s string) (int, bool) { return 42, true }, FuncOnce()))
		target := MustFunc(NewFunc(func(i int, b bool) int { return i }))
		for k := 0; k < 2; k++ {
			if r := target.Call(Typed("x"), ConverterFunc(conv)); r.Err() != nil || r.Out(0) != 42 {
				t.Errorf("FAILING-INPUT once converter use %d: %v %v", k, r.Err(), r)
			}
		}
		r := conv.Call(Typed("x"))
		if r.Err() != nil || r.Len() != 2 || r.Out(0) != 42 || r.Out(1) != true {
			t.Errorf("FAILING-INPUT direct call of a once function after use as converter: Len=%d Out(0)=%v", r.Len(), r.Out(0))
		}
	})
}

// ---------------------------------------------------------------- C04 / C02
type callLog struct{ order []string }

func (l *callLog) add(s string) { l.order = append(l.order, s) }

func TestVerifC04FailingConverter(t *testing.T) {
	for failAt := 0; failAt < 3; failAt++ {
		for _, nested := range []bool{false, true} {
			failAt, nested := failAt, nested
			name := fmt.Sprintf("chain failing at %d nested=%v", failAt, nested)
			guard(t, name, func() {
				for iter := 0; iter < 25; iter++ {
					var lg callLog
					errs := []error{errors.New("e0"), &myErr{1}, zeroErr{}}
					mk := func(i int) error {
						if i == failAt {
							return errs[i]
						}
						return nil
					}
					c0 := func(s string) (cA, error) { lg.add("c0"); return cA{1}, mk(0) }
					c1 := func(a cA) (cB, error) { lg.add("c1"); return cB{2}, mk(1) }
					c2 := func(b cB) (cC, error) { lg.add("c2"); return cC{3}, mk(2) }
					var target *Func
					opts := []Arg{Typed("in"), Converter(c0, c1, c2)}
					if nested {
						// a two-input converter whose second input needs the chain
						c3 := func(c cC, n int) (cD, error) { lg.add("c3"); return cD{4}, nil }
						opts = append(opts, Converter(c3), Typed(7))
						target = MustFunc(NewFunc(func(d cD) int { lg.add("target"); return d.v }))
					} else {
						target = MustFunc(NewFunc(func(c cC) int { lg.add("target"); return c.v }))
					}
					r := target.Call(opts...)
					if r.Err() != errs[failAt] {
						t.Errorf("FAILING-INPUT %s: Err()=%#v want exactly the converter's error %#v (order %v)", name, r.Err(), errs[failAt], lg.order)
						return
					}
					want := []string{"c0", "c1", "c2"}[:failAt+1]
					if fmt.Sprint(lg.order) != fmt.Sprint(want) {
						t.Errorf("FAILING-INPUT %s: executed %v want %v (nothing may run after the failing converter)", name, lg.order, want)
						return
					}
				}
			})
		}
	}
	// a failing provider (no inputs)
	guard(t, "failing provider", func() {
		e := errors.New("provider failed")
		var lg callLog
		target := MustFunc(NewFunc(func(a cA) int { lg.add("target"); return 1 }))
		r := target.Call(Converter(func() (cA, error) { lg.add("p"); return cA{}, e }))
		if r.Err() != e || fmt.Sprint(lg.order) != "[p]" {
			t.Errorf("FAILING-INPUT failing provider: Err()=%v order=%v", r.Err(), lg.order)
		}
	})
	// the target's own error is reported by the accessor; no converter failed
	guard(t, "target error", func() {
		e := errors.New("target failed")
		r := MustFunc(NewFunc(func(a int) (int, error) { return 0, e })).Call(Typed(1))
		if r.Err() != e {
			t.Errorf("FAILING-INPUT target error: Err()=%v", r.Err())
		}
	})
}

func TestVerifC02Unsatisfiable(t *testing.T) {
	guard(t, "unsatisfiable families", func() {
		var lg callLog
		target := MustFunc(NewFunc(func(s string) int { lg.add("target"); return 1 }))
		scen := []struct {
			name string
			opts []Arg
		}{
			{"nothing supplied", nil},
			{"wrong type", []Arg{Typed(1)}},
			{"converter with a missing second input", []Arg{Typed(5), Converter(func(n int, verbose bool) string { lg.add("conv"); return "x" })}},
			{"two-step chain with missing middle input", []Arg{Typed(cA{1}), Converter(func(a cA) cB { lg.add("ab"); return cB{} }, func(b cB, c cC) string { lg.add("bc"); return "x" })}},
			{"self-feeding named converter", []Arg{Named("env", "e"), Converter(func(in struct {
				Struct
				S   string
				Env string
			}) struct {
				Struct
				S string
			} {
				lg.add("self")
				return struct {
					Struct
					S string
				}{S: "x"}
			})}},
		}
		named := MustFunc(NewFunc(func(in struct {
			Struct
			S string
		}) int {
			lg.add("target")
			return 1
		}))
		for _, sc := range scen {
			for iter := 0; iter < 10; iter++ {
				lg.order = nil
				tg := target
				if sc.name == "self-feeding named converter" {
					tg = named
				}
				r := tg.Call(append([]Arg{boundedLogger(300)}, sc.opts...)...)
				if r.Err() == nil {
					t.Errorf("FAILING-INPUT %s: Call succeeded", sc.name)
					break
				}
				for _, s := range lg.order {
					if s == "target" || s == "conv" || s == "bc" || s == "self" {
						t.Errorf("FAILING-INPUT %s: %q executed although its arguments cannot be derived (order %v)", sc.name, s, lg.order)
					}
				}
				var ue *ErrArgumentUnsatisfied
				if sc.name == "nothing supplied" || sc.name == "wrong type" {
					if !errors.As(r.Err(), &ue) {
						t.Errorf("FAILING-INPUT %s: error %T is not the unsatisfied-argument error", sc.name, r.Err())
					}
				}
			}
		}
	})
}

// ---------------------------------------------------------------- C10
type stringerT struct{ s string }

func (s stringerT) String() string { return s.s }

func TestVerifC10Convert(t *testing.T) {
	guard(t, "convert agrees with identity", func() {
		e := errors.New("boom")
		type sc struct {
			name   string
			target reflect.Type
			ident  interface{}
			opts   []Arg
		}
		scen := []sc{
			{"direct", reflect.TypeOf(0), func(v int) int { return v }, []Arg{Typed(7)}},
			{"via converter", reflect.TypeOf(""), func(v string) string { return v }, []Arg{Typed(7), Converter(func(i int) string { return fmt.Sprint(i) })}},
			{"impossible", reflect.TypeOf(cA{}), func(v cA) cA { return v }, []Arg{Typed(7)}},
			{"failing converter", reflect.TypeOf(""), func(v string) string { return v }, []Arg{Typed(7), Converter(func(i int) (string, error) { return "", e })}},
			{"error target with non-nil value", reflect.TypeOf((*error)(nil)).Elem(), func(v error) error { return v }, []Arg{Typed(7), Converter(func(i int) (error, error) { return e, nil })}},
			{"interface target nil value", reflect.TypeOf((*fmt.Stringer)(nil)).Elem(), func(v fmt.Stringer) fmt.Stringer { return v }, []Arg{Typed("x"), Converter(func(s string) fmt.Stringer { return nil })}},
			{"interface target", reflect.TypeOf((*fmt.Stringer)(nil)).Elem(), func(v fmt.Stringer) fmt.Stringer { return v }, []Arg{Typed("x"), Converter(func(s string) fmt.Stringer { return stringerT{s} })}},
		}
		for _, s := range scen {
			for iter := 0; iter < 5; iter++ {
				r := MustFunc(NewFunc(s.ident)).Call(s.opts...)
				v, err := Convert(s.target, s.opts...)
				if (err == nil) != (r.Err() == nil) {
					t.Errorf("FAILING-INPUT Convert %s: err=%v but identity call err=%v", s.name, err, r.Err())
					continue
				}
				if err != nil {
					if v != nil {
						t.Errorf("FAILING-INPUT Convert %s: non-nil value %v with error", s.name, v)
					}
					continue
				}
				if r.Len() >= 1 && !reflect.DeepEqual(v, r.Out(0)) {
					t.Errorf("FAILING-INPUT Convert %s: %v but the identity call yields %v", s.name, v, r.Out(0))
				}
				if v != nil && !reflect.TypeOf(v).AssignableTo(s.target) {
					t.Errorf("FAILING-INPUT Convert %s: %T not assignable to %v", s.name, v, s.target)
				}
			}
		}
		// two different types printing the same
		type local struct{ a int }
		a1 := reflect.TypeOf(local{})
		func() {
			type local struct{ b string }
			a2 := reflect.TypeOf(local{})
			if _, err := Convert(a1, Typed(reflect.New(a1).Elem().Interface())); err != nil {
				t.Errorf("FAILING-INPUT Convert to first local type: %v", err)
			}
			if _, err := Convert(a2, Typed(reflect.New(a2).Elem().Interface())); err != nil {
				t.Errorf("FAILING-INPUT Convert to a second type printing the same as the first: %v", err)
			}
		}()
	})
}

// ---------------------------------------------------------------- C11 (sequential histories)
func TestVerifC11Once(t *testing.T) {
	guard(t, "once semantics", func() {
		e := errors.New("first failed")
		for _, fail := range []bool{false, true} {
			calls := 0
			conv := MustFunc(NewFunc(func(s string) (cA, error) {
				calls++
				if fail {
					return cA{}, e
				}
				return cA{calls}, nil
			}, FuncOnce()))
			t1 := MustFunc(NewFunc(func(a cA) int { return a.v }))
			t2 := MustFunc(NewFunc(func(a cA, b cB) int { return a.v + b.v }))
			for k := 0; k < 3; k++ {
				r := t1.Call(Typed("x"+fmt.Sprint(k)), ConverterFunc(conv))
				if fail {
					if r.Err() != e {
						t.Errorf("FAILING-INPUT once(fail) use %d: Err()=%v want the first execution's error", k, r.Err())
					}
				} else if r.Err() != nil || r.Out(0) != 1 {
					t.Errorf("FAILING-INPUT once use %d: %v %v", k, r.Err(), r)
				}
			}
			// needed twice within one call
			r := t2.Call(Typed("y"), ConverterFunc(conv), Converter(func(a cA) cB { return cB{a.v * 10} }))
			if !fail && (r.Err() != nil || r.Out(0) != 11) {
				t.Errorf("FAILING-INPUT once needed twice in one call: %v", r.Err())
			}
			if calls != 1 {
				t.Errorf("FAILING-INPUT run-once body executed %d times (fail=%v)", calls, fail)
			}
		}
		// no return values at all
		n := 0
		f := MustFunc(NewFunc(func() { n++ }, FuncOnce()))
		f.Call()
		f.Call()
		if n != 1 {
			t.Errorf("FAILING-INPUT once function without results executed %d times", n)
		}
		// Redefine before first real use must not consume or poison the memo
		calls := 0
		conv := MustFunc(NewFunc(func(s string) cA { calls++; return cA{42} }, FuncOnce()))
		tg := MustFunc(NewFunc(func(a cA) int { return a.v }))
		if _, err := tg.Redefine(ConverterFunc(conv), FilterInput(FilterType(reflect.TypeOf("")))); err != nil {
			t.Errorf("FAILING-INPUT Redefine: %v", err)
		}
		if calls != 0 {
			t.Errorf("FAILING-INPUT Redefine executed a run-once converter")
		}
		r := tg.Call(Typed("s"), ConverterFunc(conv))
		if r.Err() != nil || r.Out(0) != 42 || calls != 1 {
			t.Errorf("FAILING-INPUT call after Redefine: got %v calls=%d", r, calls)
		}
		// a run-once function used through several handles: redefined before its
		// first execution (twice), called through both redefinitions, directly,
		// and as a converter — one execution, one result for all
		for _, order := range [][]int{{0, 1, 2, 3}, {2, 0, 1, 3}, {3, 1, 0, 2}, {1, 3, 2, 0}} {
			runs := 0
			once := MustFunc(NewFunc(func(s string) cA { runs++; return cA{100 + runs} }, FuncOnce()))
			g1, err1 := once.Redefine()
			g2, err2 := once.Redefine()
			if err1 != nil || err2 != nil {
				t.Errorf("FAILING-INPUT once across handles: Redefine failed: %v %v", err1, err2)
				continue
			}
			user := MustFunc(NewFunc(func(a cA) int { return a.v }))
			var got []interface{}
			for _, h := range order {
				var r Result
				switch h {
				case 0:
					r = g1.Call(Typed("s0"))
				case 1:
					r = g2.Call(Typed("s1"))
				case 2:
					r = once.Call(Typed("s2"))
				case 3:
					r = user.Call(Typed("s3"), ConverterFunc(once))
				}
				if r.Err() != nil {
					t.Errorf("FAILING-INPUT once across handles order=%v: use %d failed: %v", order, h, r.Err())
					continue
				}
				v := r.Out(0)
				if a, ok := v.(cA); ok {
					v = a.v
				}
				got = append(got, v)
			}
			for _, v := range got {
				if v != 101 {
					t.Errorf("FAILING-INPUT once across handles order=%v: results %v, want the first execution's 101 everywhere", order, got)
					break
				}
			}
			if runs != 1 {
				t.Errorf("FAILING-INPUT once across handles order=%v: body executed %d times", order, runs)
			}
		}
	})
}

package argmapper

// Bounded replay/search harness for C01 / C03 / C07 (labelled "bounded"):
// small configurations of supplied values, converters and a one-parameter
// target are run through the real Call; every value carries its provenance
// (the label it was supplied or produced under) and the harness checks the
// binding the target (and every converter) received against the matching
// table of the property statement. Not a proof: the configurations are the
// ones enumerated below.

import (
	"fmt"
	"os"
	"reflect"
	"strings"
	"testing"

	"github.com/hashicorp/go-hclog"
)

// prov is a value with provenance. Two payload types (so that type-only
// matching has something to tell apart) and an interface both implement.
type provA struct{ Origin string }
type provB struct{ Origin string }
type provI interface{ origin() string }

func (p provA) origin() string  { return p.Origin }
func (p provB) origin() string  { return p.Origin }
func (p *provB) String() string { return p.Origin }

type label struct {
	name string
	typ  string // "A", "B", "I"
	sub  string
}

func (l label) String() string { return fmt.Sprintf("%s:%s/%s", l.name, l.typ, l.sub) }

func (l label) rtype() reflect.Type {
	switch l.typ {
	case "A":
		return reflect.TypeOf(provA{})
	case "B":
		return reflect.TypeOf(provB{})
	}
	return reflect.TypeOf((*provI)(nil)).Elem()
}

func (l label) value() interface{} {
	switch l.typ {
	case "A":
		return provA{l.String()}
	case "B":
		return provB{l.String()}
	}
	return provA{l.String()} // an implementation, labelled by the interface label
}

func parseOrigin(s string) label {
	var l label
	i := strings.Index(s, ":")
	j := strings.LastIndex(s, "/")
	l.name, l.typ, l.sub = s[:i], s[i+1:j], s[j+1:]
	return l
}

// compat: the matching table of the property statement: may a value that was
// supplied/produced under label src be bound to a parameter labelled dst?
func compat(dst, src label) bool {
	if dst.name != "" && src.name != "" && dst.name != src.name {
		return false
	}
	same := dst.typ == src.typ
	impl := dst.typ == "I" && src.typ != "I"
	if !same && !impl {
		return false
	}
	if same && !(dst.sub == src.sub || dst.sub == "" || src.sub == "") {
		return false
	}
	return true
}

func structOf(fields []label, exported string) reflect.Type {
	sf := []reflect.StructField{{Name: "Struct", Type: reflect.TypeOf(Struct{}), Anonymous: true}}
	for i, f := range fields {
		tag := f.name
		if f.name == "" {
			tag = ",typeOnly"
		}
		if f.sub != "" {
			tag += ",subtype=" + f.sub
		}
		sf = append(sf, reflect.StructField{Name: fmt.Sprintf("%s%d", exported, i), Type: f.rtype(), Tag: reflect.StructTag(`argmapper:"` + tag + `"`)})
	}
	return reflect.StructOf(sf)
}

type binding struct {
	who string
	dst label
	src label
}

// mkFunc builds func(in struct) (out struct) that records what it received and
// returns values labelled by its output labels.
func mkFunc(who string, ins, outs []label, rec *[]binding) interface{} {
	it := structOf(ins, "In")
	var outTypes []reflect.Type
	var ot reflect.Type
	if len(outs) > 0 {
		ot = structOf(outs, "Out")
		outTypes = []reflect.Type{ot}
	}
	ft := reflect.FuncOf([]reflect.Type{it}, outTypes, false)
	return reflect.MakeFunc(ft, func(args []reflect.Value) []reflect.Value {
		for i, l := range ins {
			v := args[0].Field(i + 1).Interface()
			o := ""
			if p, ok := v.(provI); ok && p != nil {
				o = p.origin()
			}
			if o == "" {
				*rec = append(*rec, binding{who, l, label{name: "?", typ: "fabricated"}})
				continue
			}
			*rec = append(*rec, binding{who, l, parseOrigin(o)})
		}
		if ot == nil {
			return nil
		}
		out := reflect.New(ot).Elem()
		for i, l := range outs {
			pl := l
			if pl.typ == "I" {
				out.Field(i + 1).Set(reflect.ValueOf(provA{l.String()}))
			} else {
				out.Field(i + 1).Set(reflect.ValueOf(pl.value()))
			}
		}
		return []reflect.Value{out}
	}).Interface()
}

func inputArg(l label) Arg {
	switch {
	case l.name != "" && l.sub != "":
		return NamedSubtype(l.name, l.value(), l.sub)
	case l.name != "":
		return Named(l.name, l.value())
	case l.sub != "":
		return TypedSubtype(l.value(), l.sub)
	}
	return Typed(l.value())
}

type scenario struct {
	param  label
	inputs []label
	convs  [][2][]label // in labels, out labels
}

func (sc scenario) String() string {
	return fmt.Sprintf("param=%v inputs=%v convs=%v", sc.param, sc.inputs, sc.convs)
}

func runScenario(sc scenario) (bad []string) {
	var rec []binding
	target := mkFunc("target", []label{sc.param}, nil, &rec)
	opts := []Arg{Logger(hclog.NewNullLogger())}
	for _, in := range sc.inputs {
		opts = append(opts, inputArg(in))
	}
	for ci, c := range sc.convs {
		opts = append(opts, Converter(mkFunc(fmt.Sprintf("conv%d", ci), c[0], c[1], &rec)))
	}
	f, err := NewFunc(target)
	if err != nil {
		return nil
	}
	func() {
		defer func() {
			if r := recover(); r != nil {
				bad = append(bad, fmt.Sprintf("panic: %v", r))
			}
		}()
		f.Call(opts...)
	}()
	for _, b := range rec {
		if b.src.typ == "fabricated" {
			bad = append(bad, fmt.Sprintf("%s parameter %v received a fabricated/zero value", b.who, b.dst))
			continue
		}
		if !compat(b.dst, b.src) {
			bad = append(bad, fmt.Sprintf("%s parameter %v received the value supplied/produced as %v", b.who, b.dst, b.src))
		}
	}
	return bad
}

func labelsUniverse(thorough bool) []label {
	names := []string{"x", "y", ""}
	types := []string{"A", "I"}
	subs := []string{"", "a", "b"}
	if thorough {
		types = []string{"A", "B", "I"}
	}
	var ls []label
	for _, n := range names {
		for _, t := range types {
			for _, s := range subs {
				ls = append(ls, label{n, t, s})
			}
		}
	}
	return ls
}

// TestVerifLabels: one parameter, up to two supplied inputs, optionally one
// converter whose single input is type-only A and whose single output ranges
// over the universe.
func TestVerifLabels(t *testing.T) {
	thorough := os.Getenv("VERIF_TIER") == "thorough"
	U := labelsUniverse(thorough)
	var inputsU []label
	for _, l := range U {
		if l.typ != "I" { // supplied values have concrete types
			inputsU = append(inputsU, l)
		}
	}
	n, failures := 0, 0
	report := func(sc scenario, bad []string) {
		failures++
		if failures <= 400 {
			t.Errorf("FAILING-INPUT %v: %s", sc, strings.Join(bad, "; "))
		}
	}
	for _, p := range U {
		// inputs only
		for i := range inputsU {
			for j := i; j < len(inputsU); j++ {
				sc := scenario{param: p, inputs: []label{inputsU[i]}}
				if j > i {
					sc.inputs = append(sc.inputs, inputsU[j])
				}
				n++
				if bad := runScenario(sc); len(bad) > 0 {
					report(sc, bad)
				}
			}
		}
		// one converter: src (type-only B-or-A seed) -> out label
		for _, out := range U {
			seed := label{"", "A", ""}
			if thorough {
				seed = label{"", "B", ""}
			}
			if out == seed {
				continue
			}
			sc := scenario{param: p, inputs: []label{{"seed", seed.typ, ""}}, convs: [][2][]label{{{seed}, {out}}}}
			n++
			if bad := runScenario(sc); len(bad) > 0 {
				report(sc, bad)
			}
		}
	}
	// converters of which only SOME inputs can be satisfied: the second input's
	// type is never supplied or produced; such a converter must not be executed
	// (with an invented argument), whatever the parameter asks for
	for _, p := range U {
		for _, out := range U {
			for _, missing := range []label{{"", "B", ""}, {"m", "B", ""}, {"", "B", "a"}} {
				if thorough {
					missing.typ = "A"
				}
				seed := label{"", "A", ""}
				if thorough {
					seed = label{"", "B", ""}
				}
				sc := scenario{param: p, inputs: []label{{"seed", seed.typ, ""}}, convs: [][2][]label{{{seed, missing}, {out}}}}
				n++
				if bad := runScenario(sc); len(bad) > 0 {
					report(sc, bad)
				}
			}
		}
	}
	t.Logf("label scenarios run: %d, failing: %d", n, failures)
}

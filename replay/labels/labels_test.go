package argmapper

// Bounded replay/search harness for C01 / C03 / C07 (labelled "bounded"):
// small configurations of supplied values, converters and a one-parameter
// target are run through the real Call; every value carries its provenance
// (the label it was supplied or produced under) and the harness checks the
// binding the target (and every converter) received against the matching
// table of the property statement. Not a proof: the configurations are the
// ones enumerated below.

import (
	"fmt"
	"os"
	"reflect"
	"strings"
	"testing"

	"github.com/hashicorp/go-hclog"
)

// prov is a value with provenance. Two payload types (so that type-only
// matching has something to tell apart) and an interface both implement.
type provA struct{ Origin, Via string }
type provB struct{ Origin, Via string }
type provI interface {
	origin() string
	via() string
}

func (p provA) origin() string  { return p.Origin }
func (p provB) origin() string  { return p.Origin }
func (p provA) via() string     { return p.Via }
func (p provB) via() string     { return p.Via }
func (p *provB) String() string { return p.Origin }

type label struct {
	name string
	typ  string // "A", "B", "I"
	sub  string
}

func (l label) String() string { return fmt.Sprintf("%s:%s/%s", l.name, l.typ, l.sub) }

func (l label) rtype() reflect.Type {
	switch l.typ {
	case "A":
		return reflect.TypeOf(provA{})
	case "B":
		return reflect.TypeOf(provB{})
	}
	return reflect.TypeOf((*provI)(nil)).Elem()
}

func (l label) value() interface{} {
	switch l.typ {
	case "A":
		return provA{Origin: l.String()}
	case "B":
		return provB{Origin: l.String()}
	}
	return provA{Origin: l.String()} // an implementation, labelled by the interface label
}

func parseOrigin(s string) label {
	var l label
	i := strings.Index(s, ":")
	j := strings.LastIndex(s, "/")
	l.name, l.typ, l.sub = s[:i], s[i+1:j], s[j+1:]
	return l
}

// compat: the matching table of the property statement: may a value that was
// supplied/produced under label src be bound to a parameter labelled dst?
func compat(dst, src label) bool {
	if dst.name != "" && src.name != "" && dst.name != src.name {
		return false
	}
	same := dst.typ == src.typ
	impl := dst.typ == "I" && src.typ != "I"
	if !same && !impl {
		return false
	}
	if same && !(dst.sub == src.sub || dst.sub == "" || src.sub == "") {
		return false
	}
	return true
}

func structOf(fields []label, exported string) reflect.Type {
	sf := []reflect.StructField{{Name: "Struct", Type: reflect.TypeOf(Struct{}), Anonymous: true}}
	for i, f := range fields {
		tag := f.name
		if f.name == "" {
			tag = ",typeOnly"
		}
		if f.sub != "" {
			tag += ",subtype=" + f.sub
		}
		sf = append(sf, reflect.StructField{Name: fmt.Sprintf("%s%d", exported, i), Type: f.rtype(), Tag: reflect.StructTag(`argmapper:"` + tag + `"`)})
	}
	return reflect.StructOf(sf)
}

type binding struct {
	who string
	dst label
	src label
	via string // "" for a supplied value, the producing converter otherwise
}

// mkFunc builds func(in struct) (out struct) that records what it received and
// returns values labelled by its output labels.
func mkFunc(who string, ins, outs []label, rec *[]binding) interface{} {
	it := structOf(ins, "In")
	var outTypes []reflect.Type
	var ot reflect.Type
	if len(outs) > 0 {
		ot = structOf(outs, "Out")
		outTypes = []reflect.Type{ot}
	}
	ft := reflect.FuncOf([]reflect.Type{it}, outTypes, false)
	return reflect.MakeFunc(ft, func(args []reflect.Value) []reflect.Value {
		for i, l := range ins {
			v := args[0].Field(i + 1).Interface()
			o, via := "", ""
			if p, ok := v.(provI); ok && p != nil {
				o, via = p.origin(), p.via()
			}
			if o == "" {
				*rec = append(*rec, binding{who, l, label{name: "?", typ: "fabricated"}, ""})
				continue
			}
			*rec = append(*rec, binding{who, l, parseOrigin(o), via})
		}
		if ot == nil {
			return nil
		}
		out := reflect.New(ot).Elem()
		for i, l := range outs {
			switch l.typ {
			case "B":
				out.Field(i + 1).Set(reflect.ValueOf(provB{Origin: l.String(), Via: who}))
			default:
				out.Field(i + 1).Set(reflect.ValueOf(provA{Origin: l.String(), Via: who}))
			}
		}
		return []reflect.Value{out}
	}).Interface()
}

func inputArg(l label) Arg {
	switch {
	case l.name != "" && l.sub != "":
		return NamedSubtype(l.name, l.value(), l.sub)
	case l.name != "":
		return Named(l.name, l.value())
	case l.sub != "":
		return TypedSubtype(l.value(), l.sub)
	}
	return Typed(l.value())
}

type scenario struct {
	param  label
	inputs []label
	convs  [][2][]label // in labels, out labels
}

func (sc scenario) String() string {
	return fmt.Sprintf("param=%v inputs=%v convs=%v", sc.param, sc.inputs, sc.convs)
}

func runScenario(sc scenario) (bad []string) {
	bad, _, _ = runScenarioRec(sc, []label{sc.param})
	return bad
}

func runScenarioRec(sc scenario, params []label) (bad []string, rec []binding, callErr error) {
	target := mkFunc("target", params, nil, &rec)
	opts := []Arg{Logger(hclog.NewNullLogger())}
	for _, in := range sc.inputs {
		opts = append(opts, inputArg(in))
	}
	for ci, c := range sc.convs {
		opts = append(opts, Converter(mkFunc(fmt.Sprintf("conv%d", ci), c[0], c[1], &rec)))
	}
	f, err := NewFunc(target)
	if err != nil {
		return nil, nil, err
	}
	func() {
		defer func() {
			if r := recover(); r != nil {
				bad = append(bad, fmt.Sprintf("panic: %v", r))
			}
		}()
		res := f.Call(opts...)
		callErr = res.Err()
	}()
	for _, b := range rec {
		if b.src.typ == "fabricated" {
			bad = append(bad, fmt.Sprintf("%s parameter %v received a fabricated/zero value", b.who, b.dst))
			continue
		}
		if !compat(b.dst, b.src) {
			bad = append(bad, fmt.Sprintf("%s parameter %v received the value supplied/produced as %v", b.who, b.dst, b.src))
		}
	}
	return bad, rec, callErr
}

func labelsUniverse(thorough bool) []label {
	names := []string{"x", "y", ""}
	types := []string{"A", "I"}
	subs := []string{"", "a", "b"}
	if thorough {
		types = []string{"A", "B", "I"}
	}
	var ls []label
	for _, n := range names {
		for _, t := range types {
			for _, s := range subs {
				ls = append(ls, label{n, t, s})
			}
		}
	}
	return ls
}

// TestVerifLabels: one parameter, up to two supplied inputs, optionally one
// converter whose single input is type-only A and whose single output ranges
// over the universe.
func TestVerifLabels(t *testing.T) {
	thorough := os.Getenv("VERIF_TIER") == "thorough"
	U := labelsUniverse(thorough)
	var inputsU []label
	for _, l := range U {
		if l.typ != "I" { // supplied values have concrete types
			inputsU = append(inputsU, l)
		}
	}
	n, failures := 0, 0
	report := func(sc scenario, bad []string) {
		failures++
		if failures <= 400 {
			t.Errorf("FAILING-INPUT %v: %s", sc, strings.Join(bad, "; "))
		}
	}
	for _, p := range U {
		// inputs only
		for i := range inputsU {
			for j := i; j < len(inputsU); j++ {
				sc := scenario{param: p, inputs: []label{inputsU[i]}}
				if j > i {
					sc.inputs = append(sc.inputs, inputsU[j])
				}
				n++
				if bad := runScenario(sc); len(bad) > 0 {
					report(sc, bad)
				}
			}
		}
		// one converter: src (type-only B-or-A seed) -> out label
		for _, out := range U {
			seed := label{"", "A", ""}
			if thorough {
				seed = label{"", "B", ""}
			}
			if out == seed {
				continue
			}
			sc := scenario{param: p, inputs: []label{{"seed", seed.typ, ""}}, convs: [][2][]label{{{seed}, {out}}}}
			n++
			if bad := runScenario(sc); len(bad) > 0 {
				report(sc, bad)
			}
		}
	}
	// converters of which only SOME inputs can be satisfied: the second input's
	// type is never supplied or produced; such a converter must not be executed
	// (with an invented argument), whatever the parameter asks for
	for _, p := range U {
		for _, out := range U {
			for _, missing := range []label{{"", "B", ""}, {"m", "B", ""}, {"", "B", "a"}} {
				if thorough {
					missing.typ = "A"
				}
				seed := label{"", "A", ""}
				if thorough {
					seed = label{"", "B", ""}
				}
				sc := scenario{param: p, inputs: []label{{"seed", seed.typ, ""}}, convs: [][2][]label{{{seed, missing}, {out}}}}
				n++
				if bad := runScenario(sc); len(bad) > 0 {
					report(sc, bad)
				}
			}
		}
	}
	// converters with two type-only outputs (same or different type, same or
	// different subtype): whichever output vertex the parameter is fed from must
	// carry the value produced under that vertex's own label
	var typeOnly []label
	for _, l := range U {
		if l.name == "" {
			typeOnly = append(typeOnly, l)
		}
	}
	for _, p := range U {
		for _, o1 := range typeOnly {
			for _, o2 := range typeOnly {
				if o1 == o2 {
					continue
				}
				seed := label{"", "A", ""}
				if thorough {
					seed = label{"", "B", ""}
				}
				if o1 == seed || o2 == seed {
					continue
				}
				sc := scenario{param: p, inputs: []label{{"seed", seed.typ, ""}}, convs: [][2][]label{{{seed}, {o1, o2}}}}
				n++
				if bad := runScenario(sc); len(bad) > 0 {
					report(sc, bad)
				}
			}
		}
	}
	t.Logf("label scenarios run: %d, failing: %d", n, failures)
}


// TestVerifExact (C03): every target parameter has an exactly matching
// supplied value; whatever else is supplied (other values of the same type,
// converters that could produce the same labels, a same-named value of
// another type with a converter from it), the call must succeed without
// running a converter and bind the exact values. Each scenario is repeated
// (map iteration order).
func TestVerifExact(t *testing.T) {
	thorough := os.Getenv("VERIF_TIER") == "thorough"
	reps := 12
	if thorough {
		reps = 60
	}
	names := []string{"x", ""}
	subs := []string{"", "a"}
	var params []label
	for _, n := range names {
		for _, s := range subs {
			params = append(params, label{n, "A", s})
		}
	}
	// distractor inputs
	// (a named value without subtype of the parameter's own name would REPLACE the exact one: options are last-wins)
	distract := []label{{"y", "A", ""}, {"x", "A", "b"}, {"", "A", "b"}, {"y", "A", "a"}, {"x", "B", "c"}, {"y", "B", ""}}
	type convSpec struct{ in, out []label }
	mkConvs := func(p label) []convSpec {
		return []convSpec{
			{[]label{{"", "B", ""}}, []label{p}},                  // type-only converter producing the very label
			{[]label{{p.name, "B", "s"}}, []label{p}},             // same-named value of another type (name affinity)
			{[]label{{"", "B", ""}}, []label{{p.name, "A", "b"}}}, // produces another subtype
			{nil, []label{p}},                                     // provider
			{[]label{{p.name, "B", ""}}, []label{p}},              // takes the name without subtype; only the subtyped same-named B is supplied
		}
	}
	n, failures := 0, 0
	for _, p := range params {
		for di := -1; di < len(distract); di++ {
			for ci := -1; ci < 5; ci++ {
				sc := scenario{param: p, inputs: []label{p}}
				if di >= 0 {
					sc.inputs = append(sc.inputs, distract[di])
				}
				if ci >= 0 {
					c := mkConvs(p)[ci]
					sc.convs = [][2][]label{{c.in, c.out}}
					sc.inputs = append(sc.inputs, label{"", "B", ""})
					if p.name != "" {
						sc.inputs = append(sc.inputs, label{p.name, "B", "s"})
					}
				}
				for r := 0; r < reps; r++ {
					n++
					bad, rec, err := runScenarioRec(sc, []label{p})
					if err != nil {
						bad = append(bad, "call failed: "+err.Error())
					}
					for _, b := range rec {
						if b.who != "target" {
							bad = append(bad, "converter "+b.who+" was executed")
						} else if p.name != "" && (b.via != "" || b.src != p) {
							bad = append(bad, fmt.Sprintf("parameter %v did not receive the exactly matching supplied value but %v (via %q)", p, b.src, b.via))
						} else if p.name == "" && (b.via != "" || b.src.typ != p.typ) {
							bad = append(bad, fmt.Sprintf("type-only parameter %v did not receive a supplied value of exactly its type but %v (via %q)", p, b.src, b.via))
						}
					}
					if len(bad) > 0 {
						failures++
						if failures <= 300 {
							t.Errorf("FAILING-INPUT exact %v (run %d): %s", sc, r, strings.Join(bad, "; "))
						}
						break
					}
				}
			}
		}
	}
	t.Logf("exact-match scenarios run: %d, failing scenarios: %d", n, failures)
}

// TestVerifAffinity (C07): name affinity. (a) parameter n:A must be converted
// from a type-only converter B -> A; several named B values are supplied, one
// of them named n: that one must be converted. (b) two converters could
// produce n:A, one taking n:B by name, one type-only B: the named one runs.
func TestVerifAffinity(t *testing.T) {
	thorough := os.Getenv("VERIF_TIER") == "thorough"
	reps := 15
	if thorough {
		reps = 80
	}
	n, failures := 0, 0
	report := func(what string, sc scenario, r int, bad []string) {
		failures++
		if failures <= 10 {
			t.Errorf("FAILING-INPUT affinity/%s %v (run %d): %s", what, sc, r, strings.Join(bad, "; "))
		}
	}
	others := [][]string{{"y"}, {"y", "z"}, {"y", "z", "w"}}
	for _, os_ := range others {
		p := label{"x", "A", ""}
		sc := scenario{param: p, inputs: []label{{"x", "B", ""}}, convs: [][2][]label{{{{"", "B", ""}}, {{"", "A", ""}}}}}
		for _, o := range os_ {
			sc.inputs = append(sc.inputs, label{o, "B", ""})
		}
		for r := 0; r < reps; r++ {
			n++
			bad, rec, err := runScenarioRec(sc, []label{p})
			if err != nil {
				bad = append(bad, "call failed: "+err.Error())
			}
			for _, b := range rec {
				if b.who == "conv0" && b.src.name != "x" {
					bad = append(bad, fmt.Sprintf("the converter's type-only input was fed by %v instead of the value named like the parameter", b.src))
				}
			}
			if len(bad) > 0 {
				report("several-inputs", sc, r, bad)
				break
			}
		}
	}
	{
		p := label{"x", "A", ""}
		sc := scenario{param: p, inputs: []label{{"x", "B", ""}}, convs: [][2][]label{
			{{{"", "B", ""}}, {{"", "A", ""}}},
			{{{"x", "B", ""}}, {{"x", "A", ""}}},
		}}
		for r := 0; r < reps; r++ {
			n++
			bad, rec, err := runScenarioRec(sc, []label{p})
			if err != nil {
				bad = append(bad, "call failed: "+err.Error())
			}
			for _, b := range rec {
				if b.who == "target" && b.via != "conv1" {
					bad = append(bad, fmt.Sprintf("the parameter was produced via %q instead of the converter that takes the name", b.via))
				}
			}
			if len(bad) > 0 {
				report("named-converter", sc, r, bad)
				break
			}
		}
	}
	t.Logf("affinity scenarios run: %d, failing scenarios: %d", n, failures)
}

// TestVerifUnsatisfied (C13): two-parameter targets where one parameter is
// hopeless (its type is supplied or produced by nothing) and the other has an
// exactly matching supplied value; distractor inputs and converters are added.
// The call must fail with *ErrArgumentUnsatisfied whose Args contain the
// hopeless parameter and not the satisfied one, whose Inputs are exactly the
// supplied values, whose Converters contain every supplied converter, and
// whose message mentions every missing argument.
func TestVerifUnsatisfied(t *testing.T) {
	n, failures := 0, 0
	names := []string{"x", ""}
	subs := []string{"", "a"}
	for _, hn := range names {
		for _, hs := range subs {
			for _, sn := range names {
				for _, ss := range subs {
					hopeless := label{hn, "B", hs} // nothing of type B is ever supplied or produced
					okp := label{sn, "A", ss}
					if hn == sn && hn != "" {
						okp.name = "y" // parameter names must differ
					}
					for extra := 0; extra < 4; extra++ {
						sc := scenario{inputs: []label{okp}}
						var convs [][2][]label
						switch extra {
						case 1:
							sc.inputs = append(sc.inputs, label{"z", "A", ""})
						case 2:
							convs = append(convs, [2][]label{{{"", "A", ""}}, {{"q", "A", "k"}}})
						case 3:
							sc.inputs = append(sc.inputs, label{"", "A", "t"})
							convs = append(convs, [2][]label{{{"", "A", "t"}}, {{"", "I", ""}}})
						}
						sc.convs = convs
						n++
						var rec []binding
						target := mkFunc("target", []label{hopeless, okp}, nil, &rec)
						opts := []Arg{Logger(hclog.NewNullLogger())}
						for _, in := range sc.inputs {
							opts = append(opts, inputArg(in))
						}
						var convFuncs []*Func
						for ci, c := range sc.convs {
							cf, err := NewFunc(mkFunc(fmt.Sprintf("conv%d", ci), c[0], c[1], &rec))
							if err != nil {
								t.Fatal(err)
							}
							convFuncs = append(convFuncs, cf)
							opts = append(opts, ConverterFunc(cf))
						}
						f, err := NewFunc(target)
						if err != nil {
							t.Fatal(err)
						}
						var bad []string
						res := f.Call(opts...)
						cerr := res.Err()
						var ue *ErrArgumentUnsatisfied
						if cerr == nil {
							bad = append(bad, "call succeeded")
						} else if e, ok := cerr.(*ErrArgumentUnsatisfied); !ok {
							bad = append(bad, fmt.Sprintf("error is %T, not the unsatisfied-argument error", cerr))
						} else {
							ue = e
						}
						if len(rec) > 0 {
							bad = append(bad, "a function body was executed")
						}
						if ue != nil {
							lab := func(v *Value) label {
								ty := "?"
								switch v.Type {
								case reflect.TypeOf(provA{}):
									ty = "A"
								case reflect.TypeOf(provB{}):
									ty = "B"
								case reflect.TypeOf((*provI)(nil)).Elem():
									ty = "I"
								}
								return label{v.Name, ty, v.Subtype}
							}
							foundHopeless := false
							for _, a := range ue.Args {
								l := lab(a)
								if l == hopeless {
									foundHopeless = true
								} else {
									bad = append(bad, fmt.Sprintf("Args lists %v which is not underivable", l))
								}
								if !strings.Contains(ue.Error(), a.String()) {
									bad = append(bad, fmt.Sprintf("message does not mention missing argument %s", a.String()))
								}
							}
							if !foundHopeless {
								bad = append(bad, "Args does not contain the hopeless parameter")
							}
							got := map[label]int{}
							for _, in := range ue.Inputs {
								got[lab(in)]++
							}
							for _, in := range sc.inputs {
								got[in]--
							}
							for l, c := range got {
								if c != 0 {
									bad = append(bad, fmt.Sprintf("Inputs differ from the supplied values at %v (%+d)", l, c))
								}
							}
							for _, cf := range convFuncs {
								found := false
								for _, c := range ue.Converters {
									if c == cf {
										found = true
									}
								}
								if !found {
									bad = append(bad, "Converters misses a supplied converter")
								}
							}
							if ue.Func != f {
								bad = append(bad, "Func is not the target")
							}
						}
						if len(bad) > 0 {
							failures++
							if failures <= 12 {
								t.Errorf("FAILING-INPUT unsatisfied params=[%v %v] %v: %s", hopeless, okp, sc, strings.Join(bad, "; "))
							}
						}
					}
				}
			}
		}
	}
	// two parameters of ONE Go type that differ only by subtype (type-only or named):
	// the hopeless one must be reported under its own label
	for _, named := range []bool{false, true} {
		for _, hopelessFirst := range []bool{true, false} {
			n++
			hp := label{"", "A", "x"}
			ok := label{"", "A", "y"}
			if named {
				hp, ok = label{"p", "A", "x"}, label{"q", "A", "y"}
			}
			params := []label{hp, ok}
			if !hopelessFirst {
				params = []label{ok, hp}
			}
			var rec []binding
			f, err := NewFunc(mkFunc("target", params, nil, &rec))
			if err != nil {
				t.Fatal(err)
			}
			res := f.Call(Logger(hclog.NewNullLogger()), inputArg(ok))
			cerr := res.Err()
			ue, isUE := cerr.(*ErrArgumentUnsatisfied)
			var bad []string
			if !isUE {
				bad = append(bad, fmt.Sprintf("error is %T, not the unsatisfied-argument error", cerr))
			} else {
				found := false
				for _, a := range ue.Args {
					if a.Name == hp.name && a.Subtype == hp.sub {
						found = true
					} else {
						bad = append(bad, fmt.Sprintf("Args lists %q/%q which has an exactly matching supplied value", a.Name, a.Subtype))
					}
					if !strings.Contains(ue.Error(), a.String()) {
						bad = append(bad, "message does not mention "+a.String())
					}
				}
				if !found {
					bad = append(bad, "Args does not contain the hopeless parameter "+hp.String())
				}
			}
			if len(bad) > 0 {
				failures++
				t.Errorf("FAILING-INPUT unsatisfied same-type params=%v supplied=%v: %s", params, ok, strings.Join(bad, "; "))
			}
		}
	}
	t.Logf("unsatisfied-argument scenarios run: %d, failing: %d", n, failures)
}

// TestVerifUnsatisfiedBare (C13): the report when little or nothing is
// supplied — no options at all, only a logger, only a converter, only an
// unrelated input. Every parameter of the target is then missing: the error is
// *ErrArgumentUnsatisfied, Args lists each parameter, and the message mentions
// each of them, whatever else the report has to say.
func TestVerifUnsatisfiedBare(t *testing.T) {
	paramSets := [][]label{
		{{"x", "B", ""}},
		{{"", "B", ""}},
		{{"x", "B", "a"}},
		{{"", "B", "a"}},
		{{"x", "B", ""}, {"y", "B", "a"}},
		{{"x", "B", ""}, {"", "B", "a"}},
	}
	for _, params := range paramSets {
		for mode := 0; mode < 4; mode++ {
			var rec []binding
			f, err := NewFunc(mkFunc("target", params, nil, &rec))
			if err != nil {
				t.Fatal(err)
			}
			var opts []Arg
			desc := "no options"
			switch mode {
			case 1:
				opts = []Arg{Logger(hclog.NewNullLogger())}
				desc = "only a logger"
			case 2:
				opts = []Arg{Logger(hclog.NewNullLogger()), Converter(mkFunc("conv", []label{{"", "A", "zz"}}, []label{{"q", "A", "k"}}, &rec))}
				desc = "only an unrelated converter"
			case 3:
				opts = []Arg{Logger(hclog.NewNullLogger()), inputArg(label{"w", "A", ""})}
				desc = "only an unrelated input"
			}
			if mode == 0 {
				opts = nil
			}
			var cerr error
			func() {
				defer func() {
					if r := recover(); r != nil {
						t.Errorf("FAILING-INPUT unsatisfied-bare params=%v %s: panic %v", params, desc, r)
					}
				}()
				if mode == 0 {
					// without a logger option the default logger is used; keep the output small
					r1 := f.Call(Logger(hclog.NewNullLogger()))
					cerr = r1.Err()
					r2 := f.Call()
					cerr2 := r2.Err()
					if (cerr == nil) != (cerr2 == nil) {
						t.Errorf("FAILING-INPUT unsatisfied-bare params=%v: Call() and Call(Logger) disagree", params)
					}
					if cerr2 != nil {
						cerr = cerr2
					}
				} else {
					r := f.Call(opts...)
					cerr = r.Err()
				}
			}()
			ue, ok := cerr.(*ErrArgumentUnsatisfied)
			if !ok || ue == nil {
				t.Errorf("FAILING-INPUT unsatisfied-bare params=%v %s: error is %T (%v), not the unsatisfied-argument error", params, desc, cerr, cerr)
				continue
			}
			if len(rec) > 0 {
				t.Errorf("FAILING-INPUT unsatisfied-bare params=%v %s: a function body was executed", params, desc)
			}
			if len(ue.Args) != len(params) {
				t.Errorf("FAILING-INPUT unsatisfied-bare params=%v %s: Args lists %d values, want %d", params, desc, len(ue.Args), len(params))
			}
			msg := ue.Error()
			for _, a := range ue.Args {
				if !strings.Contains(msg, a.String()) {
					t.Errorf("FAILING-INPUT unsatisfied-bare params=%v %s: the message does not mention the missing argument %s", params, desc, a.String())
				}
			}
			for _, p := range params {
				found := false
				for _, a := range ue.Args {
					if a.Name == p.name && a.Subtype == p.sub && a.Type == p.rtype() {
						found = true
					}
				}
				if !found {
					t.Errorf("FAILING-INPUT unsatisfied-bare params=%v %s: parameter %v is not listed in Args", params, desc, p)
				}
			}
		}
	}
}

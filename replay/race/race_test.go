package argmapper

// Bounded harness for C12 (labelled "bounded"): goroutines share one target,
// the same converter objects and the same option values; run under the Go race
// detector (-race) by the driver. Each goroutine's outcome must be one a
// sequential execution of the same call can produce.

import (
	"reflect"
	"strconv"
	"sync"
	"testing"

	"github.com/hashicorp/go-hclog"
)

type rcA struct{ V int }
type rcB struct{ V string }

func TestVerifRace(t *testing.T) {
	target := MustFunc(NewFunc(func(b rcB, n int) string { return b.V + "/" + strconv.Itoa(n) }))
	conv := MustFunc(NewFunc(func(a rcA) rcB { return rcB{strconv.Itoa(a.V)} }))
	defaults := make([]Arg, 0, 4)
	defaults = append(defaults, Named("unused", "u"))
	withDefaults := MustFunc(NewFunc(func(b rcB, n int) string { return b.V + "/" + strconv.Itoa(n) }, defaults...))
	shared := []Arg{Logger(hclog.NewNullLogger()), ConverterFunc(conv), Typed(rcA{7}), Typed(3), NamedSubtype("Mixed", "m", "s"), TypedSubtype(int8(1), "a")}
	var wg sync.WaitGroup
	errs := make(chan string, 64)
	for g := 0; g < 8; g++ {
		wg.Add(1)
		go func(g int) {
			defer wg.Done()
			for i := 0; i < 30; i++ {
				f := target
				if i%2 == 1 {
					f = withDefaults
				}
				args := append([]Arg{}, shared...)
				args = append(args, TypedSubtype(int8(2), "b"))
				r := f.Call(args...)
				if r.Err() != nil {
					errs <- r.Err().Error()
					return
				}
				if r.Out(0) != "7/3" {
					errs <- "outcome " + r.Out(0).(string)
					return
				}
				if _, err := Convert(target.Input().Values()[0].Type, Logger(hclog.NewNullLogger()), ConverterFunc(conv), Typed(rcA{g})); err != nil {
					errs <- err.Error()
					return
				}
			}
		}(g)
	}
	wg.Wait()
	close(errs)
	for e := range errs {
		t.Errorf("FAILING-INPUT race: %s", e)
	}
}

// TestVerifRaceOnce: the same, with a run-once converter shared by the goroutines.
func TestVerifRaceOnce(t *testing.T) {
	target := MustFunc(NewFunc(func(b rcB) string { return b.V }))
	runs := 0
	var mu sync.Mutex
	conv := MustFunc(NewFunc(func(a rcA) rcB {
		mu.Lock()
		runs++
		mu.Unlock()
		return rcB{strconv.Itoa(a.V)}
	}, FuncOnce()))
	var wg sync.WaitGroup
	errs := make(chan string, 64)
	for g := 0; g < 8; g++ {
		wg.Add(1)
		go func() {
			defer wg.Done()
			for i := 0; i < 20; i++ {
				r := target.Call(Logger(hclog.NewNullLogger()), ConverterFunc(conv), Typed(rcA{7}))
				if r.Err() != nil {
					errs <- r.Err().Error()
					return
				}
				if r.Out(0) != "7" {
					errs <- "outcome " + r.Out(0).(string)
					return
				}
			}
		}()
	}
	wg.Wait()
	close(errs)
	for e := range errs {
		t.Errorf("FAILING-INPUT race-once: %s", e)
	}
	if runs > 1 {
		t.Errorf("FAILING-INPUT race-once: the run-once converter executed %d times", runs)
	}
}

// TestVerifRaceRedefine: calls of a target run while other goroutines plan
// (Redefine) over the same target and the same shared converter objects. A call
// must see the real converters, never a planning stand-in.
func TestVerifRaceRedefine(t *testing.T) {
	target := MustFunc(NewFunc(func(b rcB) string { return "got:" + b.V }))
	conv := MustFunc(NewFunc(func(a rcA) rcB { return rcB{strconv.Itoa(a.V)} }))
	withConv := MustFunc(NewFunc(func(b rcB) string { return "got:" + b.V }, ConverterFunc(conv)))
	var wg sync.WaitGroup
	errs := make(chan string, 64)
	for g := 0; g < 8; g++ {
		wg.Add(1)
		go func(g int) {
			defer wg.Done()
			for i := 0; i < 40; i++ {
				f := target
				if i%2 == 1 {
					f = withConv
				}
				if g%2 == 0 {
					r := f.Call(Logger(hclog.NewNullLogger()), ConverterFunc(conv), Typed(rcA{42}))
					if r.Err() != nil {
						errs <- "call during Redefine: " + r.Err().Error()
						return
					}
					if r.Out(0) != "got:42" {
						errs <- "call during Redefine returned " + r.Out(0).(string)
						return
					}
				} else {
					rf, err := f.Redefine(Logger(hclog.NewNullLogger()), ConverterFunc(conv), FilterInput(FilterType(reflect.TypeOf(rcA{}))))
					if err != nil {
						errs <- "Redefine: " + err.Error()
						return
					}
					r := rf.Call(Logger(hclog.NewNullLogger()), Typed(rcA{42}))
					if r.Err() != nil {
						errs <- "redefined call: " + r.Err().Error()
						return
					}
					if r.Out(0) != "got:42" {
						errs <- "redefined call returned " + r.Out(0).(string)
						return
					}
				}
			}
		}(g)
	}
	wg.Wait()
	close(errs)
	for e := range errs {
		t.Errorf("FAILING-INPUT race-redefine: %s", e)
	}
}

package argmapper

// Bounded replay/search harness for C08 and C09 (labelled "bounded"): small
// converter chains (every converter has at most one input, no subtypes, one
// type per name) are redefined with input/output filters; the harness checks
// the declared inputs of the returned function, calls it, compares with the
// original, and counts every execution of user code.

import (
	"fmt"
	"os"
	"reflect"
	"sort"
	"strings"
	"testing"

	"github.com/hashicorp/go-hclog"
)

type rT0 struct{ V string }
type rT1 struct{ V string }
type rT2 struct{ V string }
type rT3 struct{ V string }

var rTypes = []reflect.Type{reflect.TypeOf(rT0{}), reflect.TypeOf(rT1{}), reflect.TypeOf(rT2{}), reflect.TypeOf(rT3{})}

type rCounter struct {
	runs map[string]int
}

func (c *rCounter) hit(who string) { c.runs[who]++ }

// conv i -> j as a positional function; payload records the chain.
func rConv(c *rCounter, i, j int) interface{} {
	var in []reflect.Type
	if i >= 0 {
		in = []reflect.Type{rTypes[i]}
	}
	ft := reflect.FuncOf(in, []reflect.Type{rTypes[j]}, false)
	who := fmt.Sprintf("conv%d>%d", i, j)
	return reflect.MakeFunc(ft, func(args []reflect.Value) []reflect.Value {
		c.hit(who)
		out := reflect.New(rTypes[j]).Elem()
		src := "p"
		if len(args) > 0 {
			src = args[0].Field(0).String()
		}
		out.Field(0).SetString(src + ">" + fmt.Sprint(j))
		return []reflect.Value{out}
	}).Interface()
}

// target over the given parameter types, returns the concatenation.
func rTarget(c *rCounter, params []int) interface{} {
	var in []reflect.Type
	for _, p := range params {
		in = append(in, rTypes[p])
	}
	ft := reflect.FuncOf(in, []reflect.Type{reflect.TypeOf("")}, false)
	return reflect.MakeFunc(ft, func(args []reflect.Value) []reflect.Value {
		c.hit("target")
		var parts []string
		for _, a := range args {
			parts = append(parts, a.Field(0).String())
		}
		return []reflect.Value{reflect.ValueOf(strings.Join(parts, "|"))}
	}).Interface()
}

func rVal(i int, s string) interface{} {
	v := reflect.New(rTypes[i]).Elem()
	v.Field(0).SetString(s)
	return v.Interface()
}

type rScenario struct {
	params   []int    // target parameter types
	convs    [][2]int // i -> j
	supplied []int    // types supplied to Redefine
	allow    []int    // input filter: permitted types (nil: no filter)
	once     bool     // converters are FuncOnce
}

func (s rScenario) String() string {
	return fmt.Sprintf("params=%v convs=%v supplied=%v allow=%v once=%v", s.params, s.convs, s.supplied, s.allow, s.once)
}

func runRedefine(sc rScenario) (bad []string) { return runRedefineMode(sc, false) }

// planningOnly: report only what C09 is about (executions during planning, run-once behaviour)
func runRedefineMode(sc rScenario, planningOnly bool) (bad []string) {
	defer func() {
		if !planningOnly {
			return
		}
		var keep []string
		for _, b := range bad {
			if strings.HasPrefix(b, "Redefine executed") || strings.HasPrefix(b, "run-once converter") || strings.Contains(b, "panicked") {
				keep = append(keep, b)
			}
		}
		bad = keep
	}()
	c := &rCounter{runs: map[string]int{}}
	target, err := NewFunc(rTarget(c, sc.params))
	if err != nil {
		return nil
	}
	opts := []Arg{Logger(hclog.NewNullLogger())}
	var convFuncs []*Func
	for _, cv := range sc.convs {
		var fo []Arg
		if sc.once {
			fo = append(fo, FuncOnce())
		}
		cf, err := NewFunc(rConv(c, cv[0], cv[1]), fo...)
		if err != nil {
			return nil
		}
		convFuncs = append(convFuncs, cf)
		opts = append(opts, ConverterFunc(cf))
	}
	suppliedSet := map[int]bool{}
	for _, s := range sc.supplied {
		opts = append(opts, Typed(rVal(s, fmt.Sprintf("s%d", s))))
		suppliedSet[s] = true
	}
	ropts := append([]Arg(nil), opts...)
	allowed := func(t reflect.Type) bool {
		if sc.allow == nil {
			return true
		}
		for _, a := range sc.allow {
			if rTypes[a] == t {
				return true
			}
		}
		return false
	}
	if sc.allow != nil {
		var fs []FilterFunc
		for _, a := range sc.allow {
			fs = append(fs, FilterType(rTypes[a]))
		}
		ropts = append(ropts, FilterInput(FilterOr(fs...)))
	}
	var redefined *Func
	var rerr error
	func() {
		defer func() {
			if r := recover(); r != nil {
				bad = append(bad, fmt.Sprintf("Redefine panicked: %v", r))
			}
		}()
		redefined, rerr = target.Redefine(ropts...)
		// planning twice must not matter
		if rerr == nil {
			_, _ = target.Redefine(ropts...)
		}
	}()
	if len(bad) > 0 {
		return bad
	}
	// C09: planning runs no user code
	for who, n := range c.runs {
		if n > 0 {
			bad = append(bad, fmt.Sprintf("Redefine executed %s %d time(s)", who, n))
		}
	}
	// C08: succeeds whenever every target parameter is itself permitted
	allPermitted := true
	for _, p := range sc.params {
		if !allowed(rTypes[p]) {
			allPermitted = false
		}
	}
	if rerr != nil {
		if allPermitted {
			bad = append(bad, "Redefine failed although every target parameter is permitted by the input filter: "+strings.Split(rerr.Error(), "\n")[0])
		}
		return bad
	}
	var callArgs []Arg
	callArgs = append(callArgs, opts...)
	var inTypes []string
	for _, v := range redefined.Input().Values() {
		inTypes = append(inTypes, v.Type.String())
		if !allowed(v.Type) {
			bad = append(bad, fmt.Sprintf("declared input %s does not pass the input filter", v.Type))
		}
		for s := range suppliedSet {
			if rTypes[s] == v.Type {
				bad = append(bad, fmt.Sprintf("declared input %s is a value the caller already supplied", v.Type))
			}
		}
		for i, rt := range rTypes {
			if rt == v.Type {
				callArgs = append(callArgs, Typed(rVal(i, fmt.Sprintf("n%d", i))))
			}
		}
	}
	sort.Strings(inTypes)
	// calling the returned function with a value for each declared input
	var in []reflect.Value
	st := reflect.New(redefined.fn.Type().In(0)).Elem()
	for _, v := range redefined.Input().Values() {
		for i, rt := range rTypes {
			if rt == v.Type {
				st.Field(v.index).Set(reflect.ValueOf(rVal(i, fmt.Sprintf("n%d", i))))
			}
		}
	}
	in = append(in, st)
	var got []reflect.Value
	func() {
		defer func() {
			if r := recover(); r != nil {
				bad = append(bad, fmt.Sprintf("calling the redefined function panicked: %v", r))
			}
		}()
		got = redefined.fn.Call(in)
	}()
	if len(bad) > 0 {
		return bad
	}
	if e := got[len(got)-1]; !e.IsNil() {
		bad = append(bad, "the redefined function failed: "+strings.Split(e.Interface().(error).Error(), "\n")[0])
		return bad
	}
	runsAfterFirst := map[string]int{}
	for k, v := range c.runs {
		runsAfterFirst[k] = v
	}
	// the original may choose among equally good converter routes (map order): collect its possible results
	wants := map[interface{}]bool{}
	var firstWant interface{}
	for k := 0; k < 40; k++ {
		want := target.Call(callArgs...)
		if want.Err() != nil {
			bad = append(bad, "the original function fails with the same values: "+strings.Split(want.Err().Error(), "\n")[0])
			return bad
		}
		wants[want.Out(0)] = true
		if k == 0 {
			firstWant = want.Out(0)
		}
		if sc.once {
			break
		}
	}
	// two converters producing the same type make the route (and so the result) a free choice
	ambiguous := false
	for i := range sc.convs {
		for j := range sc.convs {
			if i != j && sc.convs[i][1] == sc.convs[j][1] {
				ambiguous = true
			}
		}
	}
	if !sc.once && !ambiguous && !wants[got[0].Interface()] {
		bad = append(bad, fmt.Sprintf("redefined function returned %v, the original returns %v for the original arguments plus those values", got[0].Interface(), firstWant))
	}
	// C09: a run-once converter executed at most once over both real uses
	if sc.once {
		for who, n := range c.runs {
			if who != "target" && n > 1 {
				bad = append(bad, fmt.Sprintf("run-once converter %s executed %d times", who, n))
			}
		}
		for who, n := range runsAfterFirst {
			_ = who
			_ = n
		}
	}
	return bad
}

func TestVerifRedefinePlanning(t *testing.T) { verifRedefine(t, true) }
func TestVerifRedefine(t *testing.T)         { verifRedefine(t, false) }

func verifRedefine(t *testing.T, planningOnly bool) {
	thorough := os.Getenv("VERIF_TIER") == "thorough"
	reps := 3
	if thorough {
		reps = 12
	}
	convSets := [][][2]int{
		{},
		{{1, 0}},
		{{1, 0}, {2, 1}},
		{{1, 0}, {2, 0}},
		{{1, 0}, {2, 1}, {3, 2}},
		{{1, 0}, {0, 1}}, // cyclic
		{{2, 0}, {2, 1}},
		{{-1, 1}, {1, 0}}, // a provider (no input) feeding a converter
		{{-1, 0}},
	}
	paramSets := [][]int{{0}, {0, 1}, {1}}
	suppliedSets := [][]int{{}, {2}, {1}, {0}, {3}}
	allowSets := [][]int{nil, {0}, {1}, {2}, {0, 1}, {2, 3}, {3}}
	n, failures := 0, 0
	for _, ps := range paramSets {
		for _, cs := range convSets {
			for _, ss := range suppliedSets {
				for _, as := range allowSets {
					for _, once := range []bool{false, true} {
						sc := rScenario{params: ps, convs: cs, supplied: ss, allow: as, once: once}
						for r := 0; r < reps; r++ {
							n++
							if bad := runRedefineMode(sc, planningOnly); len(bad) > 0 {
								failures++
								for _, b := range bad {
									t.Errorf("FAILING-INPUT redefine %v (run %d): %s", sc, r, b)
								}
								break
							}
						}
					}
				}
			}
		}
	}
	t.Logf("redefine scenarios run: %d, failing scenarios: %d", n, failures)
}


// TestVerifRedefineOutputs (C08): Redefine fails when an output is rejected
// by the output filter — named and type-only outputs alike — and does not fail
// for that reason when every output is accepted.
func TestVerifRedefineOutputs(t *testing.T) {
	type outSpec struct {
		named bool
		typ   int
	}
	mk := func(outs []outSpec) interface{} {
		sf := []reflect.StructField{{Name: "Struct", Type: reflect.TypeOf(Struct{}), Anonymous: true}}
		for i, o := range outs {
			tag := ""
			if !o.named {
				tag = `argmapper:",typeOnly"`
			}
			sf = append(sf, reflect.StructField{Name: fmt.Sprintf("O%d", i), Type: rTypes[o.typ], Tag: reflect.StructTag(tag)})
		}
		ot := reflect.StructOf(sf)
		ft := reflect.FuncOf([]reflect.Type{rTypes[3]}, []reflect.Type{ot}, false)
		return reflect.MakeFunc(ft, func(args []reflect.Value) []reflect.Value { return []reflect.Value{reflect.New(ot).Elem()} }).Interface()
	}
	n, failures := 0, 0
	for _, outs := range [][]outSpec{{{true, 0}}, {{false, 0}}, {{true, 0}, {false, 1}}, {{false, 0}, {true, 1}}, {{true, 0}, {true, 1}}} {
		for _, allow := range [][]int{{0}, {1}, {0, 1}, {2}} {
			n++
			f, err := NewFunc(mk(outs))
			if err != nil {
				t.Fatal(err)
			}
			var fs []FilterFunc
			for _, a := range allow {
				fs = append(fs, FilterType(rTypes[a]))
			}
			_, rerr := f.Redefine(Logger(hclog.NewNullLogger()), FilterOutput(FilterOr(fs...)))
			rejected := false
			for _, o := range outs {
				ok := false
				for _, a := range allow {
					if a == o.typ {
						ok = true
					}
				}
				if !ok {
					rejected = true
				}
			}
			if rejected && rerr == nil {
				failures++
				t.Errorf("FAILING-INPUT redefine-outputs outs=%v allow=%v: Redefine succeeded although an output is rejected by the output filter", outs, allow)
			}
			if !rejected && rerr != nil && strings.Contains(rerr.Error(), "output filter") {
				failures++
				t.Errorf("FAILING-INPUT redefine-outputs outs=%v allow=%v: Redefine failed on the output filter although every output is accepted", outs, allow)
			}
		}
	}
	t.Logf("output-filter scenarios run: %d, failing: %d", n, failures)
}

// TestVerifRedefineLate (C09): a Redefine that fails late (while walking the
// plan: a two-input converter reachable through one permitted input only)
// must leave the converters it was given intact: no execution during
// planning, and the next real call runs the real bodies.
func TestVerifRedefineLate(t *testing.T) {
	for _, once := range []bool{false, true} {
		runs := 0
		var fo []Arg
		if once {
			fo = append(fo, FuncOnce())
		}
		conv := MustFunc(NewFunc(func(s rT1, neg bool) rT0 {
			runs++
			v := s.V
			if neg {
				v = "-" + v
			}
			return rT0{v}
		}, fo...))
		target := MustFunc(NewFunc(func(v rT0) string { return v.V }))
		lg := Logger(hclog.NewNullLogger())
		_, rerr := target.Redefine(lg, ConverterFunc(conv), FilterInput(FilterType(reflect.TypeOf(true))))
		if rerr == nil {
			// not the late-failure shape any more: nothing to check here
			continue
		}
		if runs != 0 {
			t.Errorf("FAILING-INPUT redefine-late once=%v: the failed Redefine executed the converter %d time(s)", once, runs)
		}
		if _, err := target.Redefine(lg, ConverterFunc(conv)); err != nil {
			t.Errorf("FAILING-INPUT redefine-late once=%v: a later Redefine fails: %v", once, strings.Split(err.Error(), "\n")[0])
		}
		r := target.Call(lg, Typed(rT1{"41"}), Typed(true), ConverterFunc(conv))
		if r.Err() != nil {
			t.Errorf("FAILING-INPUT redefine-late once=%v: the real call after a failed Redefine fails: %v", once, strings.Split(r.Err().Error(), "\n")[0])
		} else if r.Out(0) != "-41" || runs != 1 {
			t.Errorf("FAILING-INPUT redefine-late once=%v: the real call after a failed Redefine returned %v after %d execution(s) of the converter", once, r.Out(0), runs)
		}
	}
}

// TestVerifRedefineNamed (C08): named values. A supplied named value that
// reaches the requirement through a converter with a named input must not be
// declared again; a new named input shared by two parameters is declared once.
func TestVerifRedefineNamed(t *testing.T) {
	lg := Logger(hclog.NewNullLogger())
	type inS struct {
		Struct
		S rT1
	}
	conv := func(in inS) rT0 { return rT0{in.S.V} }
	{
		target := MustFunc(NewFunc(func(in struct {
			Struct
			B rT0
		}) string {
			return in.B.V
		}))
		rf, err := target.Redefine(lg, Named("s", rT1{"12"}), Converter(conv), FilterInput(FilterType(reflect.TypeOf(rT1{}))))
		if err != nil {
			t.Errorf("FAILING-INPUT redefine-named supplied-named: Redefine failed: %v", strings.Split(err.Error(), "\n")[0])
		} else {
			for _, v := range rf.Input().Values() {
				if v.Name == "s" {
					t.Errorf("FAILING-INPUT redefine-named supplied-named: the supplied named value s is declared again as an input")
				}
			}
		}
	}
	{
		target := MustFunc(NewFunc(func(in struct {
			Struct
			B rT0
			C rT0 `argmapper:",typeOnly"`
		}) string {
			return in.B.V + in.C.V
		}))
		var rf *Func
		var err error
		func() {
			defer func() {
				if r := recover(); r != nil {
					t.Errorf("FAILING-INPUT redefine-named shared-input: Redefine panicked: %v", r)
				}
			}()
			rf, err = target.Redefine(lg, Converter(conv), FilterInput(FilterType(reflect.TypeOf(rT1{}))))
		}()
		if err == nil && rf != nil {
			n := 0
			for _, v := range rf.Input().Values() {
				if v.Name == "s" {
					n++
				}
			}
			if n > 1 {
				t.Errorf("FAILING-INPUT redefine-named shared-input: the new named input s is declared %d times", n)
			}
		}
	}
}

type rdDefIn struct {
	Struct
	A int
	B int
}

// TestVerifRedefineDefaults: default options attached to the target by NewFunc
// (a named value, a converter) take part in planning exactly as they take part
// in calls: a parameter covered by a default value is not declared as an input,
// a default converter may be planned through, and the returned function works
// with the remaining inputs.
func TestVerifRedefineDefaults(t *testing.T) {
	guard := func(name string, f func()) {
		defer func() {
			if r := recover(); r != nil {
				t.Errorf("FAILING-INPUT redefine defaults %s: panic %v", name, r)
			}
		}()
		f()
	}
	guard("named default value", func() {
		f := MustFunc(NewFunc(func(in rdDefIn) int { return in.A + in.B }, Named("a", 12)))
		rf, err := f.Redefine(Logger(hclog.NewNullLogger()))
		if err != nil {
			t.Errorf("FAILING-INPUT redefine defaults named default value: Redefine failed: %v", err)
			return
		}
		var names []string
		for _, v := range rf.Input().Values() {
			names = append(names, v.Name)
		}
		if len(names) != 1 || names[0] != "b" {
			t.Errorf("FAILING-INPUT redefine defaults named default value: declared inputs %v, want [b] (a is supplied by the target's default)", names)
		}
		r := rf.Call(Logger(hclog.NewNullLogger()), Named("b", 24))
		if r.Err() != nil || r.Out(0) != 36 {
			t.Errorf("FAILING-INPUT redefine defaults named default value: call with b=24 gave %v (err %v), want 36", r, r.Err())
		}
	})
	guard("default converter", func() {
		f := MustFunc(NewFunc(func(s rT1) string { return "got:" + s.V }, Converter(func(i rT0) rT1 { return rT1{V: i.V + ">1"} })))
		rf, err := f.Redefine(Logger(hclog.NewNullLogger()), FilterInput(FilterType(rTypes[0])))
		if err != nil {
			t.Errorf("FAILING-INPUT redefine defaults default converter: Redefine failed although the target's default converter reaches the permitted input: %v", err)
			return
		}
		vals := rf.Input().Values()
		if len(vals) != 1 || vals[0].Type != rTypes[0] {
			t.Errorf("FAILING-INPUT redefine defaults default converter: declared inputs %v, want exactly one of type %v", vals, rTypes[0])
		}
		r := rf.Call(Logger(hclog.NewNullLogger()), Typed(rT0{V: "x"}))
		if r.Err() != nil || r.Out(0) != "got:x>1" {
			t.Errorf("FAILING-INPUT redefine defaults default converter: call gave %v (err %v), want got:x>1", r, r.Err())
		}
	})
}

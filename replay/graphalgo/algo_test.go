package graph

// Bounded replay/search harness for C18 and C20 (labelled "bounded"): all small
// weighted digraphs against reference algorithms (Floyd–Warshall, transitive
// closure). Injected with `go test -overlay`.

import (
	"fmt"
	"math"
	"math/rand"
	"os"
	"sort"
	"strconv"
	"testing"
)

type tg struct {
	n int
	w [][]int // -1 = no edge
}

func (t tg) build() *Graph {
	var g Graph
	for i := 0; i < t.n; i++ {
		g.Add(i)
	}
	for i := 0; i < t.n; i++ {
		for j := 0; j < t.n; j++ {
			if t.w[i][j] >= 0 {
				g.AddEdgeWeighted(i, j, t.w[i][j])
			}
		}
	}
	return &g
}

func (t tg) String() string { return fmt.Sprintf("n=%d w=%v", t.n, t.w) }

const inf = math.MaxInt32

func (t tg) floyd() [][]int {
	d := make([][]int, t.n)
	for i := range d {
		d[i] = make([]int, t.n)
		for j := range d[i] {
			switch {
			case i == j:
				d[i][j] = 0
			case t.w[i][j] >= 0:
				d[i][j] = t.w[i][j]
			default:
				d[i][j] = inf
			}
		}
	}
	for k := 0; k < t.n; k++ {
		for i := 0; i < t.n; i++ {
			for j := 0; j < t.n; j++ {
				if d[i][k] < inf && d[k][j] < inf && d[i][k]+d[k][j] < d[i][j] {
					d[i][j] = d[i][k] + d[k][j]
				}
			}
		}
	}
	return d
}

func checkDijkstra(t tg, src int) error {
	g := t.build()
	dist, edgeTo := g.Dijkstra(src)
	ref := t.floyd()
	for v := 0; v < t.n; v++ {
		if ref[src][v] < inf {
			if dist[v] != ref[src][v] {
				return fmt.Errorf("Dijkstra(%d): distTo[%d]=%d want %d", src, v, dist[v], ref[src][v])
			}
			path := g.EdgeToPath(v, edgeTo)
			if len(path) == 0 || path[0] != Vertex(src) || path[len(path)-1] != Vertex(v) {
				return fmt.Errorf("Dijkstra(%d): path to %d = %v does not run from the source to the vertex", src, v, path)
			}
			sum := 0
			for i := 0; i+1 < len(path); i++ {
				a, b := path[i].(int), path[i+1].(int)
				if t.w[a][b] < 0 {
					return fmt.Errorf("Dijkstra(%d): path %v uses missing edge %d->%d", src, path, a, b)
				}
				sum += t.w[a][b]
			}
			if sum != ref[src][v] {
				return fmt.Errorf("Dijkstra(%d): path %v sums to %d want %d", src, path, sum, ref[src][v])
			}
		} else {
			// unreachable: the predecessor chain never leads back to the source
			cur := Vertex(v)
			for steps := 0; cur != nil && steps <= t.n+1; steps++ {
				if cur == Vertex(src) {
					return fmt.Errorf("Dijkstra(%d): predecessor chain of unreachable %d reaches the source", src, v)
				}
				cur = edgeTo[cur]
			}
		}
	}
	return nil
}

func (t tg) reach() [][]bool {
	r := make([][]bool, t.n)
	for i := range r {
		r[i] = make([]bool, t.n)
		r[i][i] = true
		for j := range r[i] {
			if t.w[i][j] >= 0 {
				r[i][j] = true
			}
		}
	}
	for k := 0; k < t.n; k++ {
		for i := 0; i < t.n; i++ {
			for j := 0; j < t.n; j++ {
				if r[i][k] && r[k][j] {
					r[i][j] = true
				}
			}
		}
	}
	return r
}

func (t tg) cyclic() bool {
	r := t.reach()
	for i := 0; i < t.n; i++ {
		for j := 0; j < t.n; j++ {
			if t.w[i][j] >= 0 && r[j][i] {
				return true
			}
		}
	}
	return false
}

// DFS: decl[v] says the callback declines to descend into v.
func checkDFS(t tg, start int, decl []bool) error {
	g := t.build()
	reported := map[int]int{}
	descended := map[int]int{}
	g.DFS(start, func(v Vertex, next func() error) error {
		reported[v.(int)]++
		if decl[v.(int)] {
			return nil
		}
		descended[v.(int)]++
		return next()
	})
	// reference: vertices reachable from start through non-declining vertices (start itself always expands)
	want := map[int]bool{}
	seen := map[int]bool{start: true}
	stack := []int{start}
	for len(stack) > 0 {
		x := stack[len(stack)-1]
		stack = stack[:len(stack)-1]
		for y := 0; y < t.n; y++ {
			if t.w[x][y] >= 0 && y != start {
				want[y] = true
				if !seen[y] && !decl[y] {
					seen[y] = true
					stack = append(stack, y)
				}
			}
		}
	}
	for v := range want {
		if reported[v] == 0 {
			return fmt.Errorf("DFS(%d) decl=%v: vertex %d reachable but not reported", start, decl, v)
		}
	}
	for v := range reported {
		if !want[v] {
			return fmt.Errorf("DFS(%d) decl=%v: vertex %d reported but not reachable", start, decl, v)
		}
	}
	for v, c := range descended {
		if c != 1 {
			return fmt.Errorf("DFS(%d) decl=%v: vertex %d descended into %d times", start, decl, v, c)
		}
		if reported[v] != 1 {
			return fmt.Errorf("DFS(%d) decl=%v: descended vertex %d reported %d times", start, decl, v, reported[v])
		}
	}
	return nil
}

func checkKahn(t tg) (err error) {
	g := t.build()
	cyc := t.cyclic()
	var order TopoOrder
	panicked := false
	func() {
		defer func() {
			if r := recover(); r != nil {
				panicked = true
			}
		}()
		order = g.KahnSort()
	}()
	if cyc {
		if !panicked {
			return fmt.Errorf("KahnSort accepted a cyclic graph, returned %v", order)
		}
		return nil
	}
	if panicked {
		return fmt.Errorf("KahnSort panicked on an acyclic graph")
	}
	pos := map[int]int{}
	for i, v := range order {
		if _, dup := pos[v.(int)]; dup {
			return fmt.Errorf("KahnSort: vertex %v twice in %v", v, order)
		}
		pos[v.(int)] = i
	}
	if len(pos) != t.n {
		return fmt.Errorf("KahnSort: %v is not a permutation of %d vertices", order, t.n)
	}
	for i := 0; i < t.n; i++ {
		for j := 0; j < t.n; j++ {
			if t.w[i][j] >= 0 && pos[i] >= pos[j] {
				return fmt.Errorf("KahnSort: edge %d->%d points backward in %v", i, j, order)
			}
		}
	}
	// the original graph is untouched
	for i := 0; i < t.n; i++ {
		for j := 0; j < t.n; j++ {
			_, ok := g.adjacencyOut[i][j]
			if ok != (t.w[i][j] >= 0) {
				return fmt.Errorf("KahnSort modified the graph it sorted")
			}
		}
	}
	// single-rooted DAG: topological shortest path agrees with Dijkstra
	roots := 0
	for j := 0; j < t.n; j++ {
		in := 0
		for i := 0; i < t.n; i++ {
			if t.w[i][j] >= 0 {
				in++
			}
		}
		if in == 0 {
			roots++
		}
	}
	if roots == 1 {
		root := order[0].(int)
		td, te := g.TopoShortestPath(order)
		dd, _ := g.Dijkstra(root)
		ref := t.floyd()
		for v := 0; v < t.n; v++ {
			if v == root {
				continue
			}
			if ref[root][v] < inf {
				if td[v] != dd[v] || td[v] != ref[root][v] {
					return fmt.Errorf("TopoShortestPath: distTo[%d]=%d, Dijkstra=%d, reference=%d (order %v)", v, td[v], dd[v], ref[root][v], order)
				}
				p := te[v]
				if p == nil || t.w[p.(int)][v] < 0 || td[v] != td[p.(int)]+t.w[p.(int)][v] {
					return fmt.Errorf("TopoShortestPath: edgeTo[%d]=%v is not a tight predecessor", v, p)
				}
			}
		}
	}
	return nil
}

func checkSCC(t tg) error {
	g := t.build()
	comps := g.StronglyConnected()
	r := t.reach()
	seen := map[int]int{}
	for ci, c := range comps {
		for _, v := range c {
			if _, dup := seen[v.(int)]; dup {
				return fmt.Errorf("SCC: vertex %v in two components %v", v, comps)
			}
			seen[v.(int)] = ci
		}
	}
	if len(seen) != t.n {
		return fmt.Errorf("SCC: components %v do not cover %d vertices", comps, t.n)
	}
	for i := 0; i < t.n; i++ {
		for j := 0; j < t.n; j++ {
			same := seen[i] == seen[j]
			mutual := r[i][j] && r[j][i]
			if same != mutual {
				return fmt.Errorf("SCC: %d and %d same-component=%v but mutually-reachable=%v (%v)", i, j, same, mutual, comps)
			}
		}
	}
	return nil
}

func allGraphs(n int, weights []int, f func(tg) bool) {
	cells := n * n
	idx := make([]int, cells)
	for {
		t := tg{n: n, w: make([][]int, n)}
		for i := 0; i < n; i++ {
			t.w[i] = make([]int, n)
			for j := 0; j < n; j++ {
				t.w[i][j] = weights[idx[i*n+j]]
			}
		}
		if !f(t) {
			return
		}
		k := 0
		for k < cells {
			idx[k]++
			if idx[k] < len(weights) {
				break
			}
			idx[k] = 0
			k++
		}
		if k == cells {
			return
		}
	}
}

func randGraph(rng *rand.Rand, n int, weights []int, density float64) tg {
	t := tg{n: n, w: make([][]int, n)}
	for i := range t.w {
		t.w[i] = make([]int, n)
		for j := range t.w[i] {
			t.w[i][j] = -1
			if rng.Float64() < density {
				t.w[i][j] = weights[1+rng.Intn(len(weights)-1)]
			}
		}
	}
	return t
}

func params() (tier string, seed int) {
	tier = os.Getenv("VERIF_TIER")
	seed, _ = strconv.Atoi(os.Getenv("VERIF_SEED"))
	return
}

func TestVerifDijkstra(t *testing.T) {
	tier, seed := params()
	count := 0
	failed := false
	check := func(g tg) bool {
		for s := 0; s < g.n; s++ {
			reps := 2
			for r := 0; r < reps; r++ { // map iteration order varies between runs
				count++
				if err := checkDijkstra(g, s); err != nil {
					t.Errorf("FAILING-INPUT graph %v: %v", g, err)
					failed = true
					return false
				}
			}
		}
		return true
	}
	allGraphs(1, []int{-1, 0, 3}, check)
	allGraphs(2, []int{-1, 0, 1, 7}, check)
	if !failed {
		allGraphs(3, []int{-1, 0, 2}, check)
	}
	rng := rand.New(rand.NewSource(int64(seed) + 7))
	nr := 3000
	if tier == "thorough" {
		nr = 60000
	}
	big := []int{-1, 0, 1, 5, 20, 600000000, 1000000}
	for i := 0; i < nr && !failed; i++ {
		g := randGraph(rng, 2+rng.Intn(5), big, 0.15+rng.Float64()*0.5)
		// keep within the int32 range precondition: total of heavy edges on any path below 2^31
		heavy := 0
		for _, row := range g.w {
			for _, w := range row {
				if w == 600000000 {
					heavy++
				}
			}
		}
		if heavy > 3 {
			continue
		}
		check(g)
	}
	t.Logf("dijkstra harness: %d (graph, source) runs", count)
}

func TestVerifTraversals(t *testing.T) {
	tier, seed := params()
	count := 0
	failed := false
	check := func(g tg) bool {
		count++
		for s := 0; s < g.n && !failed; s++ {
			for mask := 0; mask < 1<<g.n; mask++ {
				decl := make([]bool, g.n)
				for b := 0; b < g.n; b++ {
					decl[b] = mask&(1<<b) != 0
				}
				for r := 0; r < 2; r++ {
					if err := checkDFS(g, s, decl); err != nil {
						t.Errorf("FAILING-INPUT graph %v: %v", g, err)
						failed = true
						return false
					}
				}
			}
		}
		for r := 0; r < 2; r++ {
			if err := checkKahn(g); err != nil {
				t.Errorf("FAILING-INPUT graph %v: %v", g, err)
				failed = true
				return false
			}
			if err := checkSCC(g); err != nil {
				t.Errorf("FAILING-INPUT graph %v: %v", g, err)
				failed = true
				return false
			}
		}
		return true
	}
	allGraphs(1, []int{-1, 0, 2}, check)
	allGraphs(2, []int{-1, 0, 2}, check)
	if !failed {
		allGraphs(3, []int{-1, 1}, check)
	}
	// zero-weight edges matter for the DAG shortest-path routine
	if !failed {
		allGraphs(3, []int{-1, 0, 3}, func(g tg) bool {
			count++
			if err := checkKahn(g); err != nil {
				t.Errorf("FAILING-INPUT graph %v: %v", g, err)
				failed = true
				return false
			}
			return true
		})
	}
	if tier == "thorough" && !failed {
		allGraphs(4, []int{-1, 1}, check)
	}
	rng := rand.New(rand.NewSource(int64(seed) + 11))
	nr := 1500
	if tier == "thorough" {
		nr = 20000
	}
	for i := 0; i < nr && !failed; i++ {
		check(randGraph(rng, 3+rng.Intn(4), []int{-1, 0, 1, 5}, 0.1+rng.Float64()*0.4))
	}
	t.Logf("traversal harness: %d graphs (DFS with all decline masks, KahnSort, SCC, TopoShortestPath)", count)
}

var _ = sort.Ints

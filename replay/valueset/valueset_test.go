package argmapper

// Bounded replay/search harness for C14 (and the struct-walk part of C15/C16),
// labelled "bounded": tag strings over a small alphabet through the real
// NewFunc/newValueSetFromStruct against a reference parser written from the
// property statement; pointer depths; rejected signatures.

import (
	"fmt"
	"os"
	"reflect"
	"strings"
	"testing"
)

type refValue struct {
	Name, Subtype string
	Type          reflect.Type
}

// reference: name from the tag if it gives one, else the field name; always
// lower-cased; emptied by typeOnly; subtype from subtype=<value> (first '=' splits key/value; last occurrence wins)
func refParse(fieldName, tag string, t reflect.Type) refValue {
	name := fieldName
	typeOnly := false
	sub := ""
	if tag != "" {
		parts := strings.Split(tag, ",")
		if parts[0] != "" {
			name = parts[0]
		}
		for _, p := range parts[1:] {
			k, v := p, ""
			if i := strings.Index(p, "="); i >= 0 {
				k, v = p[:i], p[i+1:]
			}
			switch k {
			case "typeOnly":
				typeOnly = true
			case "subtype":
				sub = v
			}
		}
	}
	name = strings.ToLower(name)
	if typeOnly {
		name = ""
	}
	return refValue{name, sub, t}
}

func tagAlphabetTokens() []string {
	return []string{"", "a", "B", "typeOnly", "subtype=x", "subtype=", "subtype=k=v", "subtype", "typeOnly=1", "other=z", "=q"}
}

func checkStruct(t *testing.T, fields []reflect.StructField, ptr int) bool {
	st := reflect.StructOf(fields)
	typ := st
	for i := 0; i < ptr; i++ {
		typ = reflect.PtrTo(typ)
	}
	fn := reflect.MakeFunc(reflect.FuncOf([]reflect.Type{typ}, nil, false), func([]reflect.Value) []reflect.Value { return nil })
	f, err := NewFunc(fn.Interface())
	if ptr > 1 {
		if err == nil {
			t.Errorf("FAILING-INPUT %d-fold pointer to a marker struct was accepted by NewFunc", ptr)
			return false
		}
		return true
	}
	if err != nil {
		t.Errorf("FAILING-INPUT struct %v (ptr=%d) rejected: %v", st, ptr, err)
		return false
	}
	var want []refValue
	for _, sf := range fields {
		if sf.PkgPath != "" || (sf.Anonymous && sf.Type == structMarkerType) {
			continue
		}
		want = append(want, refParse(sf.Name, sf.Tag.Get("argmapper"), sf.Type))
	}
	got := f.Input().Values()
	if len(got) != len(want) {
		t.Errorf("FAILING-INPUT struct %v: %d values, want %d", st, len(got), len(want))
		return false
	}
	for i := range want {
		if got[i].Name != want[i].Name || got[i].Subtype != want[i].Subtype || got[i].Type != want[i].Type {
			t.Errorf("FAILING-INPUT struct %v: value %d = {name %q subtype %q type %v}, want {name %q subtype %q type %v}", st, i, got[i].Name, got[i].Subtype, got[i].Type, want[i].Name, want[i].Subtype, want[i].Type)
			return false
		}
		// lookups
		if want[i].Name != "" {
			uniq := true
			for j := range want {
				if j != i && want[j].Name == want[i].Name {
					uniq = false
				}
			}
			if v := f.Input().Named(want[i].Name); uniq && (v == nil || v.Type != want[i].Type || v.Subtype != want[i].Subtype) {
				t.Errorf("FAILING-INPUT struct %v: Named(%q) = %v", st, want[i].Name, v)
				return false
			}
		} else {
			uniq := true
			for j := range want {
				if j != i && want[j].Name == "" && want[j].Type == want[i].Type {
					uniq = false
				}
			}
			if v := f.Input().Typed(want[i].Type); uniq && (v == nil || v.Subtype != want[i].Subtype) {
				t.Errorf("FAILING-INPUT struct %v: Typed(%v) = %v", st, want[i].Type, v)
				return false
			}
			if v := f.Input().TypedSubtype(want[i].Type, want[i].Subtype); v == nil {
				t.Errorf("FAILING-INPUT struct %v: TypedSubtype(%v,%q) = nil", st, want[i].Type, want[i].Subtype)
				return false
			}
		}
	}
	return true
}

func TestVerifValueSetTags(t *testing.T) {
	tier := os.Getenv("VERIF_TIER")
	toks := tagAlphabetTokens()
	types := []reflect.Type{reflect.TypeOf(0), reflect.TypeOf(""), reflect.TypeOf(true)}
	marker := reflect.StructField{Name: "Struct", Type: structMarkerType, Anonymous: true}
	count := 0
	maxTok := 3
	if tier == "thorough" {
		maxTok = 4
	}
	var tags []string
	var rec func(prefix []string, n int)
	rec = func(prefix []string, n int) {
		if len(prefix) > 0 {
			tags = append(tags, strings.Join(prefix, ","))
		}
		if n == 0 {
			return
		}
		for _, tk := range toks {
			rec(append(append([]string(nil), prefix...), tk), n-1)
		}
	}
	rec(nil, maxTok)
	tags = append(tags, "")
	// one tagged field followed by an untagged one (options must not leak), in both pointer forms
	for _, tag := range tags {
		for ptr := 0; ptr <= 1; ptr++ {
			fields := []reflect.StructField{marker,
				{Name: "Alpha", Type: types[0], Tag: reflect.StructTag(fmt.Sprintf(`argmapper:"%s"`, tag))},
				{Name: "Beta", Type: types[1]},
			}
			if tag == "" {
				fields[1].Tag = ""
			}
			count++
			if !checkStruct(t, fields, ptr) {
				return
			}
		}
	}
	// pairs of tagged fields
	small := tags
	if len(small) > 150 {
		small = small[:150]
	}
	for _, t1 := range small {
		for _, t2 := range small[:40] {
			fields := []reflect.StructField{
				marker,
				{Name: "Alpha", Type: types[0], Tag: reflect.StructTag(fmt.Sprintf(`argmapper:"%s"`, t1))},
				{Name: "unexported", PkgPath: "github.com/hashicorp/go-argmapper", Type: types[1]},
				{Name: "Gamma", Type: types[2], Tag: reflect.StructTag(fmt.Sprintf(`argmapper:"%s"`, t2))},
			}
			count++
			if !checkStruct(t, fields, 0) {
				return
			}
		}
	}
	t.Logf("valueset harness: %d struct shapes (%d tags)", count, len(tags))
}

func TestVerifValueSetRejections(t *testing.T) {
	marker := reflect.StructField{Name: "Struct", Type: structMarkerType, Anonymous: true}
	fields := []reflect.StructField{marker, {Name: "A", Type: reflect.TypeOf(0)}}
	for _, ptr := range []int{2, 3, 255, 256, 257, 258, 513} {
		if !checkStruct(t, fields, ptr) {
			return
		}
	}
	st := reflect.StructOf(fields)
	// marker struct mixed with other parameters
	for _, in := range [][]reflect.Type{{st, reflect.TypeOf(0)}, {reflect.TypeOf(0), st}, {reflect.PtrTo(st), reflect.TypeOf("")}} {
		fn := reflect.MakeFunc(reflect.FuncOf(in, nil, false), func([]reflect.Value) []reflect.Value { return nil })
		if _, err := NewFunc(fn.Interface()); err == nil {
			t.Errorf("FAILING-INPUT signature %v mixing a marker struct with other parameters was accepted", in)
		}
	}
	// nil is a non-function value too: it must be rejected with an error, not a panic
	func() {
		defer func() {
			if r := recover(); r != nil {
				t.Errorf("FAILING-INPUT NewFunc(nil) panicked: %v", r)
			}
		}()
		if _, err := NewFunc(nil); err == nil {
			t.Errorf("FAILING-INPUT NewFunc(nil) accepted")
		}
		if r := MustFunc(NewFunc(func() {})).Call(Converter(nil)); r.Err() == nil {
			t.Errorf("FAILING-INPUT Converter(nil) accepted")
		}
	}()
	// non-function values
	for _, v := range []interface{}{42, "x", struct{}{}, &st} {
		if _, err := NewFunc(v); err == nil {
			t.Errorf("FAILING-INPUT NewFunc(%T) accepted a non-function", v)
		}
	}
	// final error result excluded; error elsewhere kept; positional results in order
	f, err := NewFunc(func(a int, b string) (bool, error, int, error) { return false, nil, 0, nil })
	if err != nil {
		t.Fatalf("FAILING-INPUT %v", err)
	}
	in, out := f.Input().Values(), f.Output().Values()
	if len(in) != 2 || in[0].Type != reflect.TypeOf(0) || in[1].Type != reflect.TypeOf("") || in[0].Name != "" {
		t.Errorf("FAILING-INPUT positional inputs %v", in)
	}
	if len(out) != 3 || out[0].Type != reflect.TypeOf(true) || out[1].Type != errType || out[2].Type != reflect.TypeOf(0) {
		t.Errorf("FAILING-INPUT positional outputs %v", out)
	}
}

package argmapper

// Bounded replay/search harness for C16 (labelled "bounded"): small option
// lists through the real Call against a reference fold written from the
// property statement (case-insensitive names, last occurrence wins, call
// options override defaults, nil values ignored, nil option is an error).

import (
	"fmt"
	"math/rand"
	"os"
	"strconv"
	"strings"
	"testing"
)

// type-only parameters get types of their own so that named int values are not candidates for them
type tInt int
type tSub int

type optSpec struct {
	kind int // 0 Named 1 NamedSubtype 2 Typed(int) 3 Typed(string) 4 nil-valued Named 5 Typed(nil, int) 6 TypedSubtype
	name string
	sub  string
	val  int
}

func (o optSpec) arg() Arg {
	switch o.kind {
	case 0:
		return Named(o.name, o.val)
	case 1:
		return NamedSubtype(o.name, o.val, o.sub)
	case 2:
		return Typed(tInt(o.val))
	case 3:
		return Typed(strconv.Itoa(o.val))
	case 4:
		return Named(o.name, nil)
	case 5:
		return Typed(nil, tInt(o.val))
	default:
		if o.sub == "" {
			return TypedSubtype(tInt(o.val), o.sub)
		}
		return TypedSubtype(tSub(o.val), o.sub)
	}
}

func (o optSpec) String() string {
	return fmt.Sprintf("{%d %q %q %d}", o.kind, o.name, o.sub, o.val)
}

// reference fold: key -> value
func refFold(opts []optSpec) map[string]int {
	m := map[string]int{}
	for _, o := range opts {
		switch o.kind {
		case 0:
			m["n/"+strings.ToLower(o.name)] = o.val
		case 1:
			if o.sub == "" {
				m["n/"+strings.ToLower(o.name)] = o.val
			} else {
				m["ns/"+strings.ToLower(o.name)+"/"+o.sub] = o.val
			}
		case 2, 5:
			m["t/int"] = o.val
		case 3:
			m["t/string"] = o.val
		case 6:
			if o.sub == "" {
				m["t/int"] = o.val
			} else {
				m["ts/int/"+o.sub] = o.val
			}
		}
	}
	return m
}

type optTarget struct {
	Struct
	Alpha   int
	BETA    int `argmapper:"beta"`
	Gamma   int `argmapper:",subtype=s1"`
	AnyInt  tInt `argmapper:",typeOnly"`
	SubInt  tSub `argmapper:",typeOnly,subtype=s2"`
	AnyText string `argmapper:",typeOnly"`
}

// every parameter has an exactly matching value when these keys are present
var optKeys = []string{"n/alpha", "n/beta", "ns/gamma/s1", "t/int", "ts/int/s2", "t/string"}

func runOpts(defaults, call []optSpec) (got map[string]int, err error) {
	var seen optTarget
	var dargs, cargs []Arg
	for _, o := range defaults {
		dargs = append(dargs, o.arg())
	}
	for _, o := range call {
		cargs = append(cargs, o.arg())
	}
	f, ferr := NewFunc(func(in optTarget) { seen = in }, dargs...)
	if ferr != nil {
		return nil, ferr
	}
	r := f.Call(cargs...)
	if r.Err() != nil {
		return nil, r.Err()
	}
	at, _ := strconv.Atoi(seen.AnyText)
	return map[string]int{"n/alpha": seen.Alpha, "n/beta": seen.BETA, "ns/gamma/s1": seen.Gamma, "t/int": int(seen.AnyInt), "ts/int/s2": int(seen.SubInt), "t/string": at}, nil
}

func checkOpts(t *testing.T, defaults, call []optSpec) bool {
	want := refFold(append(append([]optSpec(nil), defaults...), call...))
	for _, k := range optKeys {
		if _, ok := want[k]; !ok {
			return true // not every parameter has an exact match: outside the scenario of the property
		}
	}
	got, err := runOpts(defaults, call)
	if err != nil {
		t.Errorf("FAILING-INPUT defaults=%v call=%v: call failed although every parameter has an exactly matching value: %v", defaults, call, err)
		return false
	}
	for _, k := range optKeys {
		if got[k] != want[k] {
			t.Errorf("FAILING-INPUT defaults=%v call=%v: parameter %s received %d, want %d (last occurrence / call overrides default / case-insensitive)", defaults, call, k, got[k], want[k])
			return false
		}
	}
	return true
}

func TestVerifOptions(t *testing.T) {
	tier := os.Getenv("VERIF_TIER")
	seed, _ := strconv.Atoi(os.Getenv("VERIF_SEED"))
	base := []optSpec{{0, "alpha", "", 1}, {0, "BETA", "", 2}, {1, "Gamma", "s1", 3}, {2, "", "", 4}, {6, "", "s2", 5}, {3, "", "", 6}}
	extras := []optSpec{{0, "ALPHA", "", 11}, {0, "Alpha", "", 12}, {0, "beta", "", 13}, {1, "gamma", "s1", 14}, {1, "GAMMA", "other", 15}, {1, "gamma", "", 16},
		{2, "", "", 17}, {6, "", "s2", 18}, {6, "", "zz", 19}, {3, "", "", 20}, {4, "alpha", "", 0}, {5, "", "", 21}, {6, "", "", 22}, {0, "delta", "", 23}}
	rng := rand.New(rand.NewSource(int64(seed) + 3))
	n := 1500
	if tier == "thorough" {
		n = 30000
	}
	count := 0
	// exhaustive: base list plus every ordered pair of extras, split in every way between defaults and call options
	for i := range extras {
		for j := range extras {
			all := append(append([]optSpec(nil), base...), extras[i], extras[j])
			for _, cut := range []int{0, 3, 6, 7, 8} {
				count++
				if !checkOpts(t, all[:cut], all[cut:]) {
					return
				}
			}
			// extras first, then the base list (base wins)
			all2 := append([]optSpec{extras[i], extras[j]}, base...)
			count++
			if !checkOpts(t, all2[:1], all2[1:]) {
				return
			}
		}
	}
	for it := 0; it < n; it++ {
		all := append([]optSpec(nil), base...)
		for k := rng.Intn(5); k > 0; k-- {
			all = append(all, extras[rng.Intn(len(extras))])
		}
		rng.Shuffle(len(all), func(a, b int) { all[a], all[b] = all[b], all[a] })
		cut := rng.Intn(len(all) + 1)
		count++
		if !checkOpts(t, all[:cut], all[cut:]) {
			return
		}
	}
	// permutation invariance for distinct keys
	for it := 0; it < 200; it++ {
		p := append([]optSpec(nil), base...)
		rng.Shuffle(len(p), func(a, b int) { p[a], p[b] = p[b], p[a] })
		count++
		if !checkOpts(t, nil, p) {
			return
		}
	}
	// nil option => error result, no panic
	func() {
		defer func() {
			if r := recover(); r != nil {
				t.Errorf("FAILING-INPUT nil option panicked: %v", r)
			}
		}()
		f := MustFunc(NewFunc(func(int) {}))
		if r := f.Call(Typed(1), nil); r.Err() == nil {
			t.Errorf("FAILING-INPUT a nil option did not yield an error result")
		}
		if _, err := NewFunc(func(int) {}, nil); err == nil {
			t.Errorf("FAILING-INPUT NewFunc with a nil default option did not fail")
		}
	}()
	// defaults slices are never written through
	defs := make([]Arg, 1, 4)
	defs[0] = Typed(100)
	f1 := MustFunc(NewFunc(func(a int, s string) {}, defs...))
	defs2 := append(defs, Typed("default"))
	var got string
	f2 := MustFunc(NewFunc(func(a int, s string) { got = s }, defs2...))
	f1.Call(Typed("intruder"))
	f2.Call()
	if got != "default" {
		t.Errorf("FAILING-INPUT calling one function overwrote another function's default options: got %q want %q", got, "default")
	}
	t.Logf("options harness: %d option lists", count)
}

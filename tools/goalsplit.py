#!/usr/bin/env python3
"""goalsplit.py file.smt2 [timeout]: debugging aid — split the conjunctive goal of a dumped obligation
and try each conjunct separately."""
import sys, subprocess, tempfile, os
def split_and(f):
    if not (f.startswith('(and ') and f.endswith(')')): return [f]
    body=f[5:-1]; out=[]; depth=0; start=None
    for i,ch in enumerate(body):
        if ch=='(':
            if depth==0 and start is None: start=i
            depth+=1
        elif ch==')':
            depth-=1
            if depth==0:
                out+=split_and(body[start:i+1]); start=None
        elif ch in ' \n\t':
            if depth==0 and start is not None:
                out+=split_and(body[start:i]); start=None
        else:
            if depth==0 and start is None: start=i
    if start is not None: out+=split_and(body[start:])
    return out
p=sys.argv[1]; to=sys.argv[2] if len(sys.argv)>2 else '5'
lines=open(p).read().split('\n')
gi=max(i for i,l in enumerate(lines) if l.startswith('(assert (not '))
goal=lines[gi][len('(assert (not '):-2]
for c in split_and(goal):
    ls=lines[:gi]+['(assert (not '+c+'))']+lines[gi+1:]
    with tempfile.NamedTemporaryFile('w',suffix='.smt2',delete=False) as t:
        t.write('\n'.join(ls)); name=t.name
    res=[]
    for solver in (['z3-new','-T:'+to],['cvc5','--tlimit='+str(int(to)*1000)]):
        try:
            r=subprocess.run(solver+[name],capture_output=True,text=True,timeout=int(to)+5).stdout.split('\n')[0]
        except Exception as e: r='timeout'
        res.append(r)
        if r=='unsat': break
    os.unlink(name)
    print(res, c[:220])

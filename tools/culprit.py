#!/usr/bin/env python3
"""culprit.py good.smt2 bad.smt2: debugging aid. good is a subset of bad's assertions that the solver proves;
find which extra assertions of bad make it time out (added in chunks, then singly)."""
import sys,subprocess,time
good=set(open(sys.argv[1]).read().split('\n'))
L=open(sys.argv[2]).read().split('\n')
extra=[l for l in L if l.startswith('(assert') and l not in good]
def run(lines,t=6):
    open('/tmp/culprit_try.smt2','w').write('\n'.join(lines))
    t0=time.time()
    out=subprocess.run(['z3-new','-T:%d'%t,'/tmp/culprit_try.smt2'],capture_output=True,text=True).stdout.split('\n')[0]
    return out,round(time.time()-t0,1)
print(len(extra),'extra assertions')
chunks=[extra[i:i+12] for i in range(0,len(extra),12)]
for i,c in enumerate(chunks):
    cs=set(c)
    r=run([l for l in L if (not l.startswith('(assert')) or l in good or l in cs])
    print('chunk',i,r)
    if r[0]!='unsat':
        for l in c:
            r2=run([x for x in L if (not x.startswith('(assert')) or x in good or x==l],4)
            if r2[0]!='unsat': print('   culprit',len(l),l[:400])

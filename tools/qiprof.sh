#!/bin/bash
# qiprof.sh <function-regexp> <obligation-regexp>: dump the obligation's scripts and show z3's hottest quantifiers
rm -rf /tmp/qp; /verif/bin/govc prove -repo /repo -f "$1" -o "$2" -timeout 4 -dump /tmp/qp 2>&1 | tail -1
for f in /tmp/qp/*near1h.smt2 /tmp/qp/*near0h.smt2; do
  [ -f "$f" ] || continue
  echo "== $f ($(grep -c '^(assert' $f) asserts)"
  z3-new smt.qi.profile=true -t:6000 $f 2>&1 | grep quantifier_instances | sort -t: -k2 -rn | head -6 | while read -r l; do
    echo "$l"; n=$(echo "$l" | sed -n 's/.*k!\([0-9]*\) .*/\1/p'); [ -n "$n" ] && sed -n ${n}p $f | cut -c1-300
  done
  break
done

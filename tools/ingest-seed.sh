#!/bin/bash
# tools/ingest-seed.sh <worktree> <property> <name> "<summary>" "<needs>" [extra checks...]
# turns a sub-agent's worktree (source change + zz_demo_test.go with TestDemo) into
# seeded/_incoming/<name> and runs bin/confirm-seed on it.
set -eu
wt=$1; prop=$2; name=$3; summary=$4; needs=$5; shift 5
inc=/verif/seeded/_incoming/$name
mkdir -p "$inc"
demo=$(cd "$wt" && git ls-files --others --exclude-standard | grep 'zz_demo_test.go$' | head -1)
git -C "$wt" diff > "$inc/patch.diff"
sed 's/TestDemo/TestSeededDemo/g' "$wt/$demo" > "$inc/demo_test.go"
python3 - "$inc" "$prop" "$summary" "$needs" <<'PY'
import json, sys
inc, prop, summary, needs = sys.argv[1:5]
json.dump({"property": prop, "summary": summary, "needs": needs, "round": 6,
  "ran": ["sub-agent: go test -vet=off -count=1 ./... (suite passes with change); go test -run TestDemo -count=20 fails with change, passes without",
          "bin/confirm-seed (scratch worktree: suite passes with change, demo fails with it, passes without it; then bin/check on a scratch copy)"]},
  open(inc + "/meta.json", "w"), indent=1)
PY
cd /verif && bin/confirm-seed "$inc" "$prop" "$name" "$@"

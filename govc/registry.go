package main

// registry.go — mapping from Go types to SMT sorts, heap components, boxing of
// concrete values into interface values, and the SMT preamble.

import (
	"fmt"
	"go/types"
	"sort"
	"strings"
)

// Term is an SMT term with its sort and (where known) the Go type it models.
type Term struct {
	S     string
	Sort  string
	T     types.Type
	Fresh bool // struct value held in an object nobody else references
}

type MapInfo struct {
	Sort   string
	K, V   string // sorts
	KT, VT types.Type
	Dom    string // heap component: (Array Sort (Array K Bool))
	Val    string // heap component: (Array Sort (Array K V))
	Alloc  string
}

type StructInfo struct {
	Sort   string // Ref_<name>
	Name   string
	Fields []string
	FieldT map[string]types.Type
	Comp   map[string]string // field -> heap component name
	Alloc  string
	Named  *types.Named
	GhostF    []string          // ghost fields (not in Fields: never copied / zeroed by Go code)
	GhostSort map[string]string // sorts of ghost fields without a Go type
}

type PtrInfo struct { // pointer to a non-struct (e.g. *distQueue)
	Sort  string
	Elem  types.Type
	Comp  string
	Alloc string
}

type BoxInfo struct {
	Key  string
	Sort string
	T    types.Type
	Tag  int
}

type Registry struct {
	sortsDecl  []string          // declare-sort / datatypes, in order
	funDecl    []string          // global declare-fun / define-fun
	axioms     []string          // global axioms (assert ...)
	declared   map[string]bool   // names already declared
	comps      []string          // heap component names, in order
	compSort   map[string]string // heap component -> SMT sort
	maps       map[string]*MapInfo
	structs    map[string]*StructInfo
	ptrs       map[string]*PtrInfo
	sliceElems map[string]string // elem sort -> comp
	boxes      map[string]*BoxInfo
	boxList    []*BoxInfo
	strLits    map[string]string
	strOrder   []string
	typeSorts  map[string]string // cache go type string -> sort
	ifaceImpl  map[string]*types.Interface
	allocOf    map[string]string // ref sort -> alloc comp
	pkgVars    map[string]string
	opaque     map[string]string // qualified named type -> opaque sort (from spec)
	ghostVars  map[string]string // ghost variable name -> heap component
	imm        map[string]bool   // immutable field components (functions of the reference)
	svComp     map[string]bool   // cache: is this the component of a struct-valued field
	named      map[string]*namedDef // preds already given a function symbol
	namedAxiom map[string]string    // defining axiom text -> function symbol
	namedDeps  map[string]map[string]bool // function symbol -> pred symbols its body applies
	axiomPkg   map[string]string // spec axiom text -> package path it was stated in
}

func NewRegistry() *Registry {
	r := &Registry{
		declared: map[string]bool{}, compSort: map[string]string{},
		maps: map[string]*MapInfo{}, structs: map[string]*StructInfo{}, ptrs: map[string]*PtrInfo{},
		sliceElems: map[string]string{}, boxes: map[string]*BoxInfo{}, strLits: map[string]string{},
		typeSorts: map[string]string{}, ifaceImpl: map[string]*types.Interface{}, allocOf: map[string]string{},
		pkgVars: map[string]string{}, opaque: map[string]string{}, ghostVars: map[string]string{}, imm: map[string]bool{}, svComp: map[string]bool{}, axiomPkg: map[string]string{},
	}
	r.sortsDecl = append(r.sortsDecl,
		"(declare-sort Any 0)", "(declare-sort Str 0)", "(declare-sort SRef 0)",
		"(declare-sort RV 0)", "(declare-sort RT 0)", "(declare-sort Fn 0)", "(declare-sort Unit 0)",
		"(declare-datatypes ((Slice 0)) (((mk_slice (sref SRef) (soff Int) (slen Int)))))",
	)
	r.funDecl = append(r.funDecl,
		"(declare-const nil_Any Any)", "(declare-const str_empty Str)", "(declare-const null_SRef SRef)",
		"(declare-const rv_invalid RV)", "(declare-const rt_nil RT)", "(declare-const fn_nil Fn)", "(declare-const unit Unit)",
		"(declare-fun tag (Any) Int)",
		"(define-fun nil_slice () Slice (mk_slice null_SRef 0 0))",
		"(define-fun wrap32 ((x Int)) Int (- (mod (+ x 2147483648) 4294967296) 2147483648))",
		"(define-fun wrap8 ((x Int)) Int (mod x 256))",
		"(define-fun wrapu ((x Int)) Int (mod x 18446744073709551616))",
		"(declare-fun str_lower (Str) Str)", "(declare-fun str_upper (Str) Str)",
		"(declare-fun str_concat (Str Str) Str)",
		"(declare-fun sidx (Int Int) Int)",
	)
	r.axioms = append(r.axioms,
		"(assert (forall ((u Unit)) (= u unit)))",
		"(assert (forall ((o Int) (i Int)) (! (= (sidx o i) (+ o i)) :pattern ((sidx o i)))))",
		"(assert (= (str_lower str_empty) str_empty))",
		"(assert (forall ((s Str)) (! (= (str_lower (str_lower s)) (str_lower s)) :pattern ((str_lower (str_lower s))))))",
	)
	for _, n := range []string{"Any", "Str", "SRef", "RV", "RT", "Fn", "Unit", "Slice", "tag", "wrap32", "wrap8", "sidx"} {
		r.declared[n] = true
	}
	return r
}

func sanitize(s string) string {
	var b strings.Builder
	for _, c := range s {
		switch {
		case c >= 'a' && c <= 'z', c >= 'A' && c <= 'Z', c >= '0' && c <= '9', c == '_':
			b.WriteRune(c)
		case c == '*':
			b.WriteString("P")
		case c == '[' || c == ']':
			b.WriteString("_")
		case c == '.' || c == '/':
			b.WriteString("_")
		case c == '{' || c == '}' || c == ' ':
		default:
			b.WriteString("_")
		}
	}
	return b.String()
}

func shortTypeName(t types.Type) string {
	return types.TypeString(t, func(p *types.Package) string { return p.Name() })
}

func (r *Registry) addComp(name, sort string) {
	if _, ok := r.compSort[name]; ok {
		return
	}
	r.compSort[name] = sort
	r.comps = append(r.comps, name)
}

func (r *Registry) declSort(name string) {
	if r.declared[name] {
		return
	}
	r.declared[name] = true
	r.sortsDecl = append(r.sortsDecl, fmt.Sprintf("(declare-sort %s 0)", name))
}

func (r *Registry) declFun(name, decl string) {
	if r.declared[name] {
		return
	}
	r.declared[name] = true
	r.funDecl = append(r.funDecl, decl)
}

func (r *Registry) refSort(name string) string {
	r.declSort(name)
	r.declFun("null_"+name, fmt.Sprintf("(declare-const null_%s %s)", name, name))
	al := "AL_" + name
	r.addComp(al, fmt.Sprintf("(Array %s Bool)", name))
	r.allocOf[name] = al
	return name
}

// SortOf maps a Go type to its SMT sort, registering whatever it needs.
func (r *Registry) SortOf(t types.Type) string {
	key := types.TypeString(t, nil)
	if s, ok := r.typeSorts[key]; ok {
		return s
	}
	s := r.sortOf(t)
	r.typeSorts[key] = s
	return s
}

func isReflect(n *types.Named, name string) bool {
	o := n.Obj()
	return o.Pkg() != nil && o.Pkg().Path() == "reflect" && o.Name() == name
}

func (r *Registry) sortOf(t types.Type) string {
	switch t := t.(type) {
	case *types.Alias:
		return r.SortOf(types.Unalias(t))
	case *types.Named:
		if isReflect(t, "Value") {
			return "RV"
		}
		if isReflect(t, "Type") {
			return "RT"
		}
		q := ""
		if t.Obj().Pkg() != nil {
			q = t.Obj().Pkg().Path() + "." + t.Obj().Name()
		}
		if s, ok := r.opaque[q]; ok {
			r.declSort(s)
			return s
		}
		switch u := t.Underlying().(type) {
		case *types.Struct:
			return r.structOf(t, u).Sort
		default:
			return r.SortOf(u)
		}
	case *types.Basic:
		switch {
		case t.Info()&types.IsBoolean != 0:
			return "Bool"
		case t.Info()&types.IsInteger != 0:
			return "Int"
		case t.Info()&types.IsString != 0:
			return "Str"
		case t.Kind() == types.UntypedNil:
			return "Any"
		case t.Kind() == types.UnsafePointer:
			return "Int"
		}
		return "Int"
	case *types.Interface:
		return "Any"
	case *types.Pointer:
		if n, ok := types.Unalias(t.Elem()).(*types.Named); ok {
			if u, ok := n.Underlying().(*types.Struct); ok && !isReflect(n, "Value") {
				return r.structOf(n, u).Sort
			}
		}
		if u, ok := t.Elem().Underlying().(*types.Struct); ok {
			return r.anonStruct(u).Sort
		}
		return r.ptrOf(t).Sort
	case *types.Struct:
		if t.NumFields() == 0 {
			return "Unit"
		}
		return r.anonStruct(t).Sort
	case *types.Map:
		return r.mapOf(t).Sort
	case *types.Slice:
		r.sliceComp(t.Elem())
		return "Slice"
	case *types.Signature:
		return "Fn"
	case *types.Tuple:
		return "Unit"
	case *types.Array:
		r.sliceComp(t.Elem())
		return "Slice"
	case *types.Chan:
		return "Any"
	case *types.TypeParam:
		return "Any"
	}
	return "Any"
}

func (r *Registry) structOf(n *types.Named, u *types.Struct) *StructInfo {
	name := n.Obj().Name()
	if n.Obj().Pkg() != nil && n.Obj().Pkg().Name() != "graph" && n.Obj().Pkg().Name() != "argmapper" {
		name = n.Obj().Pkg().Name() + "_" + name
	}
	sortName := "Ref_" + sanitize(name)
	if si, ok := r.structs[sortName]; ok {
		return si
	}
	si := &StructInfo{Sort: sortName, Name: name, FieldT: map[string]types.Type{}, Comp: map[string]string{}, Named: n}
	r.structs[sortName] = si
	r.refSort(sortName)
	si.Alloc = r.allocOf[sortName]
	for i := 0; i < u.NumFields(); i++ {
		f := u.Field(i)
		si.Fields = append(si.Fields, f.Name())
		si.FieldT[f.Name()] = f.Type()
	}
	for _, f := range si.Fields {
		fs := r.SortOf(si.FieldT[f])
		c := "F_" + sanitize(name) + "_" + f
		si.Comp[f] = c
		r.addComp(c, fmt.Sprintf("(Array %s %s)", sortName, fs))
	}
	return si
}

func (r *Registry) anonStruct(u *types.Struct) *StructInfo {
	name := "anon_" + sanitize(types.TypeString(u, nil))
	if len(name) > 40 {
		name = name[:40]
	}
	sortName := "Ref_" + name
	if si, ok := r.structs[sortName]; ok {
		return si
	}
	si := &StructInfo{Sort: sortName, Name: name, FieldT: map[string]types.Type{}, Comp: map[string]string{}}
	r.structs[sortName] = si
	r.refSort(sortName)
	si.Alloc = r.allocOf[sortName]
	for i := 0; i < u.NumFields(); i++ {
		f := u.Field(i)
		si.Fields = append(si.Fields, f.Name())
		si.FieldT[f.Name()] = f.Type()
		c := "F_" + name + "_" + f.Name()
		si.Comp[f.Name()] = c
		r.addComp(c, fmt.Sprintf("(Array %s %s)", sortName, r.SortOf(f.Type())))
	}
	return si
}

func (r *Registry) ptrOf(t *types.Pointer) *PtrInfo {
	name := "Ptr_" + sanitize(shortTypeName(t.Elem()))
	if pi, ok := r.ptrs[name]; ok {
		return pi
	}
	pi := &PtrInfo{Sort: name, Elem: t.Elem()}
	r.ptrs[name] = pi
	r.refSort(name)
	pi.Alloc = r.allocOf[name]
	pi.Comp = "PV_" + name
	r.addComp(pi.Comp, fmt.Sprintf("(Array %s %s)", name, r.SortOf(t.Elem())))
	return pi
}

func (r *Registry) mapOf(t *types.Map) *MapInfo {
	k, v := r.SortOf(t.Key()), r.SortOf(t.Elem())
	name := "Map_" + sanitize(k) + "_" + sanitize(v)
	if mi, ok := r.maps[name]; ok {
		return mi
	}
	mi := &MapInfo{Sort: name, K: k, V: v, KT: t.Key(), VT: t.Elem()}
	r.maps[name] = mi
	r.refSort(name)
	mi.Alloc = r.allocOf[name]
	mi.Dom = "MD_" + name
	mi.Val = "MV_" + name
	r.addComp(mi.Dom, fmt.Sprintf("(Array %s (Array %s Bool))", name, k))
	r.addComp(mi.Val, fmt.Sprintf("(Array %s (Array %s %s))", name, k, v))
	return mi
}

func (r *Registry) sliceComp(elem types.Type) string {
	es := r.SortOf(elem)
	if c, ok := r.sliceElems[es]; ok {
		return c
	}
	c := "SE_" + sanitize(es)
	r.sliceElems[es] = c
	r.addComp(c, fmt.Sprintf("(Array SRef (Array Int %s))", es))
	if _, ok := r.compSort["AL_SRef"]; !ok {
		r.addComp("AL_SRef", "(Array SRef Bool)")
		r.allocOf["SRef"] = "AL_SRef"
	}
	return c
}

// Zero returns the zero value term of a sort.
func (r *Registry) Zero(sort string) string {
	switch sort {
	case "Int":
		return "0"
	case "Bool":
		return "false"
	case "Str":
		return "str_empty"
	case "Any":
		return "nil_Any"
	case "Slice":
		return "nil_slice"
	case "RV":
		return "rv_invalid"
	case "RT":
		return "rt_nil"
	case "Fn":
		return "fn_nil"
	case "Unit":
		return "unit"
	}
	return "null_" + sort
}

func (r *Registry) isRefSort(s string) bool {
	_, ok := r.allocOf[s]
	return ok && s != "SRef"
}

// Box returns the boxing info for a concrete Go type stored in an interface.
func (r *Registry) Box(t types.Type) *BoxInfo {
	key := types.TypeString(t, nil)
	if b, ok := r.boxes[key]; ok {
		return b
	}
	s := r.SortOf(t)
	b := &BoxInfo{Key: sanitize(shortTypeName(t)), Sort: s, T: t, Tag: len(r.boxList) + 1}
	// avoid name clashes
	for _, o := range r.boxList {
		if o.Key == b.Key {
			b.Key = fmt.Sprintf("%s_%d", b.Key, b.Tag)
		}
	}
	r.boxes[key] = b
	r.boxList = append(r.boxList, b)
	r.funDecl = append(r.funDecl,
		fmt.Sprintf("(declare-fun box_%s (%s) Any)", b.Key, s),
		fmt.Sprintf("(declare-fun unbox_%s (Any) %s)", b.Key, s))
	r.declared["box_"+b.Key] = true
	r.declared["unbox_"+b.Key] = true
	r.axioms = append(r.axioms,
		fmt.Sprintf("(assert (forall ((x %s)) (! (and (= (unbox_%s (box_%s x)) x) (= (tag (box_%s x)) %d)) :pattern ((box_%s x)))))", s, b.Key, b.Key, b.Key, b.Tag, b.Key),
		fmt.Sprintf("(assert (forall ((a Any)) (! (=> (= (tag a) %d) (= (box_%s (unbox_%s a)) a)) :pattern ((unbox_%s a)))))", b.Tag, b.Key, b.Key, b.Key))
	return b
}

func (r *Registry) StrLit(s string) string {
	if s == "" {
		return "str_empty"
	}
	if n, ok := r.strLits[s]; ok {
		return n
	}
	n := fmt.Sprintf("str_lit_%d", len(r.strLits))
	r.strLits[s] = n
	r.strOrder = append(r.strOrder, s)
	r.funDecl = append(r.funDecl, fmt.Sprintf("(declare-const %s Str) ; %q", n, s))
	return n
}

// ImplPred returns the name of the predicate "dynamic type with this tag implements iface".
func (r *Registry) ImplPred(name string, iface *types.Interface) string {
	p := "impl_" + sanitize(name)
	if _, ok := r.ifaceImpl[p]; !ok {
		r.ifaceImpl[p] = iface
		r.declFun(p, fmt.Sprintf("(declare-fun %s (Int) Bool)", p))
	}
	return p
}

// symbolsOf tokenises an SMT-LIB fragment into its identifier set.
func symbolsOf(text string, into map[string]bool) {
	start := -1
	for i := 0; i <= len(text); i++ {
		var c byte = ' '
		if i < len(text) {
			c = text[i]
		}
		if c == '(' || c == ')' || c == ' ' || c == '\n' || c == '\t' {
			if start >= 0 {
				into[text[start:i]] = true
				start = -1
			}
			continue
		}
		if start < 0 {
			start = i
		}
	}
}

func declName(decl string) string {
	f := strings.Fields(strings.TrimPrefix(decl, "("))
	if len(f) >= 2 {
		return strings.TrimRight(f[1], "()")
	}
	return ""
}

var ubiquitous = map[string]bool{"tag": true, "nil_Any": true, "forall": true, "exists": true, "assert": true, "select": true, "store": true,
	"and": true, "or": true, "not": true, "=": true, "=>": true, "ite": true, "true": true, "false": true, "!": true, ":pattern": true,
	"Int": true, "Bool": true, "Array": true, "as": true, "const": true, "<": true, "<=": true, ">": true, ">=": true, "+": true, "-": true, "*": true,
	"Any": true, "Str": true, "distinct": true, "mod": true, "div": true}

// PreambleFor renders the global declarations and only those axioms that
// share a non-ubiquitous symbol with the obligation (transitively). Dropping
// an axiom only removes an assumption, so pruning is sound.
func (r *Registry) PreambleFor(body string, pkgOK ...func(string) bool) string {
	syms := map[string]bool{}
	symbolsOf(body, syms)
	type ax struct {
		text string
		syms map[string]bool
		in   bool
	}
	var axs []*ax
	for _, a := range r.axioms {
		if p, ok := r.axiomPkg[a]; ok && len(pkgOK) > 0 && !pkgOK[0](p) {
			continue // axiom of a package the obligation's package does not depend on
		}
		if fn, ok := r.namedAxiom[a]; ok && len(pkgOK) > 1 && pkgOK[1] != nil && pkgOK[1](fn) {
			continue // definition of a pred kept opaque for this attempt
		}
		m := map[string]bool{}
		symbolsOf(a, m)
		axs = append(axs, &ax{text: a, syms: m})
	}
	// define-funs may mention other symbols
	defSyms := map[string]map[string]bool{}
	for _, d := range r.funDecl {
		if strings.HasPrefix(d, "(define-fun") {
			m := map[string]bool{}
			symbolsOf(d, m)
			defSyms[declName(d)] = m
		}
	}
	for changed := true; changed; {
		changed = false
		for _, a := range axs {
			if a.in {
				continue
			}
			for s := range a.syms {
				if !ubiquitous[s] && syms[s] && r.declared[s] {
					a.in = true
					break
				}
			}
			if a.in {
				changed = true
				for s := range a.syms {
					syms[s] = true
				}
			}
		}
		for n, m := range defSyms {
			if syms[n] {
				for s := range m {
					if !syms[s] {
						syms[s] = true
						changed = true
					}
				}
			}
		}
	}
	var b strings.Builder
	b.WriteString("(set-option :produce-models true)\n(set-logic ALL)\n")
	for _, s := range r.sortsDecl {
		b.WriteString(s + "\n")
	}
	always := map[string]bool{"nil_Any": true, "tag": true, "str_empty": true, "null_SRef": true, "nil_slice": true, "unit": true}
	for _, s := range r.funDecl {
		n := declName(s)
		if syms[n] || always[n] {
			b.WriteString(s + "\n")
		}
	}
	b.WriteString("(assert (= (tag nil_Any) 0))\n")
	for _, a := range axs {
		if a.in {
			b.WriteString(a.text + "\n")
		}
	}
	var lits []string
	for _, s := range r.strOrder {
		if syms[r.strLits[s]] {
			lits = append(lits, r.strLits[s])
		}
	}
	if len(lits) > 0 {
		b.WriteString("(assert (distinct str_empty " + strings.Join(lits, " ") + "))\n")
	}
	preds := make([]string, 0, len(r.ifaceImpl))
	for p := range r.ifaceImpl {
		if syms[p] {
			preds = append(preds, p)
		}
	}
	sort.Strings(preds)
	for _, p := range preds {
		iface := r.ifaceImpl[p]
		for _, bx := range r.boxList {
			v := "false"
			if types.Implements(bx.T, iface) {
				v = "true"
			}
			fmt.Fprintf(&b, "(assert (= (%s %d) %s))\n", p, bx.Tag, v)
		}
		fmt.Fprintf(&b, "(assert (not (%s 0)))\n", p)
	}
	return b.String()
}

// ZeroArr returns an array term mapping every index to the zero value of vsort.
// cvc5 accepts (as const ...) only for value defaults, so for uninterpreted
// zero constants a declared array with a defining axiom is used.
func (r *Registry) ZeroArr(ksort, vsort string) string {
	z := r.Zero(vsort)
	if vsort == "Int" || vsort == "Bool" {
		return "((as const (Array " + ksort + " " + vsort + ")) " + z + ")"
	}
	n := "zeroarr_" + sanitize(ksort) + "_" + sanitize(vsort)
	if !r.declared[n] {
		r.declFun(n, fmt.Sprintf("(declare-const %s (Array %s %s))", n, ksort, vsort))
		r.axioms = append(r.axioms, fmt.Sprintf("(assert (forall ((i %s)) (! (= (select %s i) %s) :pattern ((select %s i)))))", ksort, n, z, n))
	}
	return n
}

package main

// exec_call.go — calls: builtins, conversions, calls by contract, function values.

import (
	"fmt"
	"sort"
	"go/ast"
	"go/token"
	"go/types"
	"strings"
)

func recvTypeString(t types.Type) string {
	ptr := ""
	if p, ok := t.(*types.Pointer); ok {
		ptr = "*"
		t = p.Elem()
	}
	t = types.Unalias(t)
	if n, ok := t.(*types.Named); ok {
		return "(" + ptr + n.Obj().Name() + ")"
	}
	return "(" + ptr + t.String() + ")"
}

func funcKeyOf(f *types.Func) string {
	pkg := ""
	if f.Pkg() != nil {
		pkg = f.Pkg().Name()
	}
	sig := f.Type().(*types.Signature)
	if sig.Recv() != nil {
		return pkg + "." + recvTypeString(sig.Recv().Type()) + "." + f.Name()
	}
	return pkg + "." + f.Name()
}

func isLoggerType(t types.Type) bool {
	if t == nil {
		return false
	}
	s := t.String()
	return strings.HasSuffix(s, "go-hclog.Logger")
}

// staticCallee resolves the *types.Func a call invokes, if any.
func (fx *FuncExec) staticCallee(call *ast.CallExpr) (*types.Func, ast.Expr) {
	switch f := call.Fun.(type) {
	case *ast.Ident:
		if fn, ok := fx.info.Uses[f].(*types.Func); ok {
			return fn, nil
		}
	case *ast.SelectorExpr:
		if sel := fx.info.Selections[f]; sel != nil {
			if sel.Kind() == types.MethodVal {
				if fn, ok := sel.Obj().(*types.Func); ok {
					return fn, f.X
				}
			}
			return nil, nil
		}
		if fn, ok := fx.info.Uses[f.Sel].(*types.Func); ok {
			return fn, nil
		}
	case *ast.ParenExpr:
		inner := *call
		inner.Fun = f.X
		return fx.staticCallee(&inner)
	}
	return nil, nil
}

// calleeContract finds the contract for a call (nil if none).
func (fx *FuncExec) calleeContract(call *ast.CallExpr) (*Contract, string, *types.Package) {
	if fn, recvX := fx.staticCallee(call); fn != nil {
		if recvX != nil && isLoggerType(fx.typeOf(recvX)) {
			return nil, "log", nil
		}
		key := funcKeyOf(fn)
		if c, ok := fx.ctx.spec.Contracts[key]; ok {
			return c, key, fx.ctx.contractPkg(c, fn.Pkg())
		}
		return nil, key, nil
	}
	// function value
	ft := fx.typeOf(call.Fun)
	if n, ok := types.Unalias(ft).(*types.Named); ok && n.Obj().Pkg() != nil {
		key := "type:" + n.Obj().Pkg().Name() + "." + n.Obj().Name()
		if c, ok := fx.ctx.spec.Contracts[key]; ok {
			return c, key, fx.ctx.contractPkg(c, n.Obj().Pkg())
		}
	}
	if id, ok := call.Fun.(*ast.Ident); ok {
		key := "param:" + fx.fi.Key + ":" + id.Name
		if c, ok := fx.ctx.spec.Contracts[key]; ok {
			return c, key, fx.pkg.Types
		}
		// literals inherit the parent's param contracts
		for p := fx.fi.Parent; p != nil; p = p.Parent {
			key := "param:" + p.Key + ":" + id.Name
			if c, ok := fx.ctx.spec.Contracts[key]; ok {
				return c, key, fx.pkg.Types
			}
		}
		return nil, "funcvalue:" + id.Name, nil
	}
	if se, ok := call.Fun.(*ast.SelectorExpr); ok {
		key := "field:" + se.Sel.Name
		if c, ok := fx.ctx.spec.Contracts[key]; ok {
			return c, key, fx.pkg.Types
		}
		return nil, "funcvalue:" + exprString(call.Fun), nil
	}
	return nil, "funcvalue:" + exprString(call.Fun), nil
}

func (fx *FuncExec) evalCall(st *State, call *ast.CallExpr) []Term {
	// conversion?
	if tv, ok := fx.info.Types[call.Fun]; ok && tv.IsType() {
		return []Term{fx.evalConversion(st, call, tv.Type)}
	}
	if id, ok := call.Fun.(*ast.Ident); ok {
		if b, ok := fx.info.Uses[id].(*types.Builtin); ok {
			return fx.evalBuiltin(st, call, b.Name())
		}
	}
	fn, recvX := fx.staticCallee(call)
	var sig *types.Signature
	if fn != nil {
		sig = fn.Type().(*types.Signature)
	} else {
		s, ok := fx.typeOf(call.Fun).Underlying().(*types.Signature)
		if !ok {
			fx.unsupported(call.Pos(), "call of non-function %s", exprString(call.Fun))
		}
		sig = s
	}
	// receiver
	var recv *Term
	if fn != nil && recvX != nil {
		if isLoggerType(fx.typeOf(recvX)) {
			for _, a := range call.Args {
				fx.evalAny(st, a)
			}
			return fx.zeroResults(st, sig)
		}
		r := fx.evalReceiver(st, recvX, sig.Recv().Type(), call.Pos())
		recv = &r
	}
	var selfFn *Term
	if fn == nil {
		t := fx.eval(st, call.Fun)
		selfFn = &t
	}
	// arguments
	args := fx.evalArgs(st, call, sig)
	c, key, cpkg := fx.calleeContract(call)
	if c == nil && selfFn != nil {
		if rs, ok := fx.dispatchCall(st, call, sig, *selfFn, args); ok {
			return rs
		}
		if rs, ok := fx.pinnedDispatch(st, call, sig, *selfFn, args); ok {
			return rs
		}
	}
	if c == nil {
		fx.uncontr[key] = true
		if selfFn != nil {
			fx.oblige(st, "panic/nilfunc", "", not(eq(selfFn.S, "fn_nil")), "called function value is non-nil: "+trunc(exprString(call.Fun), 40), call.Pos())
		}
		// unknown effect: havoc the whole heap
		pre := map[string]string{}
		for _, cname := range fx.reg.comps {
			if strings.HasPrefix(cname, "AL_") {
				pre[cname] = fx.H(st, cname)
				delete(fx.used, cname)
			}
		}
		fx.havocHeap(st, fx.reg.comps)
		fx.allocMonotone(st, pre)
		for _, cname := range fx.reg.comps {
			if !strings.HasPrefix(cname, "AL_") {
				fx.writes[cname] = true
			}
		}
		return fx.freshResults(st, sig, nil)
	}
	c.Used = true
	return fx.applyContract(st, c, key, cpkg, sig, recv, selfFn, args, call.Pos())
}

func (fx *FuncExec) allocMonotone(st *State, pre map[string]string) {
	for _, c := range sortedStrKeys(pre) {
		o := pre[c]
		srt := strings.TrimPrefix(c, "AL_")
		if st.vars[c] == o {
			continue
		}
		fx.ghFacts = append(fx.ghFacts, ghFact{c, fmt.Sprintf("(forall ((r %s)) (! (=> (select %s r) (select %s r)) :pattern ((select %s r))))", srt, o, st.vars[c], st.vars[c]), st.vars[c], true})
		// shortcut from the entry state: what existed at entry exists now (one step
		// instead of a chain as long as the number of calls made so far)
		if h0 := fx.h0(c); h0 != o {
			fx.ghFacts = append(fx.ghFacts, ghFact{c, fmt.Sprintf("(forall ((r %s)) (! (=> (select %s r) (select %s r)) :pattern ((select %s r))))", srt, h0, st.vars[c], h0), st.vars[c], false})
		}
	}
}

func (fx *FuncExec) zeroResults(st *State, sig *types.Signature) []Term {
	var rs []Term
	for i := 0; i < sig.Results().Len(); i++ {
		t := sig.Results().At(i).Type()
		srt := fx.reg.SortOf(t)
		rs = append(rs, Term{S: fx.fresh("res", srt), Sort: srt, T: t})
	}
	return rs
}

func (fx *FuncExec) freshResults(st *State, sig *types.Signature, pre *State) []Term {
	var rs []Term
	for i := 0; i < sig.Results().Len(); i++ {
		t := sig.Results().At(i).Type()
		srt := fx.reg.SortOf(t)
		c := fx.fresh("res", srt)
		for _, f := range fx.typingFacts(st, c, t) {
			st.assume(f)
		}
		tm := Term{S: c, Sort: srt, T: t}
		if si := fx.structValInfo(t); si != nil {
			st.assume(and(not(eq(c, "null_"+si.Sort)), sel(fx.H(st, si.Alloc), c)))
			if pre != nil {
				st.assume(not(sel(pre.vars[si.Alloc], c)))
			}
			tm.Fresh = true
		}
		rs = append(rs, tm)
	}
	return rs
}

func (fx *FuncExec) evalReceiver(st *State, x ast.Expr, recvT types.Type, pos token.Pos) Term {
	xt := fx.typeOf(x)
	_, wantPtr := recvT.(*types.Pointer)
	_, havePtr := xt.Underlying().(*types.Pointer)
	if types.IsInterface(xt) {
		return fx.eval(st, x)
	}
	switch {
	case wantPtr && !havePtr:
		// addressable value: take its address
		if id, ok := x.(*ast.Ident); ok {
			if v, ok := fx.info.Uses[id].(*types.Var); ok {
				if si := fx.structValInfo(v.Type()); si != nil {
					return Term{S: st.vars[varKey(v)], Sort: si.Sort, T: recvT}
				}
				if fx.boxed[v] {
					pi := fx.reg.ptrOf(types.NewPointer(v.Type()))
					return Term{S: st.vars[varKey(v)], Sort: pi.Sort, T: recvT}
				}
			}
		}
		// field / element of struct value: its ref designates it
		v := fx.eval(st, x)
		if fx.structValInfo(xt) != nil {
			return Term{S: v.S, Sort: v.Sort, T: recvT}
		}
		fx.unsupported(pos, "cannot take address of receiver %s", exprString(x))
	case !wantPtr && havePtr:
		p := fx.eval(st, x)
		fx.nilCheck(st, p, pos, "recv-deref")
		if pi := fx.ptrInfoBySort(p.Sort); pi != nil {
			return Term{S: sel(fx.H(st, pi.Comp), p.S), Sort: fx.reg.SortOf(pi.Elem), T: recvT}
		}
		return Term{S: p.S, Sort: p.Sort, T: recvT}
	}
	return fx.eval(st, x)
}

func (fx *FuncExec) evalArgs(st *State, call *ast.CallExpr, sig *types.Signature) []Term {
	np := sig.Params().Len()
	var args []Term
	if _, isTuple := argTupleType(fx, call).(*types.Tuple); len(call.Args) == 1 && np > 1 && isTuple {
		// f(g()) with multi-value g
		rs := fx.evalMulti(st, call.Args[0])
		for i, r := range rs {
			args = append(args, fx.convert(st, r, sig.Params().At(i).Type()))
		}
		return args
	}
	passArg := func(a ast.Expr, t types.Type) Term {
		v := fx.evalTo(st, a, t)
		if si := fx.structValInfo(t); si != nil && !v.Fresh {
			v.S = fx.copyStruct(st, v.S, si, true)
			v.Fresh = true
		}
		return v
	}
	if !sig.Variadic() {
		for i, a := range call.Args {
			args = append(args, passArg(a, sig.Params().At(i).Type()))
		}
		return args
	}
	for i := 0; i < np-1; i++ {
		args = append(args, passArg(call.Args[i], sig.Params().At(i).Type()))
	}
	vt := sig.Params().At(np - 1).Type() // []T
	if call.Ellipsis.IsValid() {
		args = append(args, fx.evalTo(st, call.Args[np-1], vt))
		return args
	}
	et := vt.(*types.Slice).Elem()
	rest := call.Args[np-1:]
	if len(rest) == 0 {
		args = append(args, Term{S: "nil_slice", Sort: "Slice", T: vt})
		return args
	}
	comp := fx.reg.sliceComp(et)
	var vals []Term
	for _, a := range rest {
		vals = append(vals, passArg(a, et))
	}
	ref := fx.alloc(st, "SRef", "varargs")
	arr := sel(fx.H(st, comp), ref)
	for i, v := range vals {
		arr = store(arr, fmt.Sprint(i), v.S)
	}
	fx.setHq(st, comp, store(fx.H(st, comp), ref, arr))
	args = append(args, Term{S: fmt.Sprintf("(mk_slice %s 0 %d)", ref, len(vals)), Sort: "Slice", T: vt})
	return args
}

// applyContract: assert requires, havoc assigns, assume ensures.
func (fx *FuncExec) applyContract(st *State, c *Contract, key string, cpkg *types.Package, sig *types.Signature, recv, self *Term, args []Term, pos token.Pos, extra ...map[string]Term) []Term {
	bound := map[string]Term{}
	for _, m := range extra {
		for k, v := range m {
			bound[k] = v
		}
	}
	if recv != nil {
		rn := "recv"
		if sig.Recv() != nil && sig.Recv().Name() != "" && sig.Recv().Name() != "_" {
			rn = sig.Recv().Name()
		}
		if len(c.Params) > 0 && sig.Recv() != nil && len(c.Params) == sig.Params().Len()+1 {
			rn = c.Params[0].Name
		}
		bound[rn] = *recv
		bound["recv"] = *recv
		if _, isPtr := sig.Recv().Type().(*types.Pointer); isPtr && fx.reg.isRefSort(recv.Sort) {
			fx.oblige(st, "panic/nil", "recv:"+key, not(eq(recv.S, "null_"+recv.Sort)), "non-nil receiver for "+key, pos)
		}
	}
	if self != nil {
		bound["self"] = *self
		fx.oblige(st, "panic/nilfunc", "", not(eq(self.S, "fn_nil")), "called function value is non-nil ("+key+")", pos)
	}
	pnames := make([]string, len(args))
	off := 0
	if len(c.Params) == len(args)+1 && recv != nil {
		off = 1
	}
	for i := range args {
		if len(c.Params) >= len(args)+off && len(c.Params) > 0 {
			pnames[i] = c.Params[i+off].Name
		} else if i < sig.Params().Len() {
			pnames[i] = sig.Params().At(i).Name()
		}
		if pnames[i] == "" || pnames[i] == "_" {
			pnames[i] = fmt.Sprintf("arg%d", i)
		}
		bound[pnames[i]] = args[i]
	}
	mkEnv := func(cur, old *State, where string) *SpecEnv {
		e := &SpecEnv{fx: fx, cur: cur, old: old, bound: map[string]Term{}, pkg: cpkg, where: where + " of " + key}
		for k, v := range bound {
			e.bound[k] = v
		}
		return e
	}
	for _, r := range c.Requires {
		if r.Free {
			continue
		}
		env := mkEnv(st, st, "requires")
		g := env.Bool(r.Expr)
		lbl := key
		if r.Label != "" {
			lbl += ":" + r.Label
		}
		fx.oblige(st, "call-requires", lbl, g, r.Text, pos)
	}
	// recursion measure
	if c.Decreases != nil && fx.contract != nil && fx.contract.Decreases != nil && fx.sameRecursionGroup(key) {
		envCallee := mkEnv(st, st, "decreases")
		m := envCallee.tr(c.Decreases.Expr)
		envSelf := fx.specEnv(fx.entry, fx.entry, fx.bodyPos(), "decreases")
		m0 := envSelf.tr(fx.contract.Decreases.Expr)
		fx.oblige(st, "decreases", key, and("(< "+m.S+" "+m0.S+")", "(>= "+m0.S+" 0)"), c.Decreases.Text, pos)
	}
	pre := st.clone()
	if !c.Pure {
		var comps []string
		if c.HasAssigns {
			as := fx.assignsComps(c, cpkg)
			for _, cn := range fx.reg.comps {
				if as[cn] {
					comps = append(comps, cn)
					fx.writes[cn] = true
				}
			}
		} else {
			for _, cn := range fx.reg.comps {
				comps = append(comps, cn)
				fx.writes[cn] = true
			}
		}
		preAl := map[string]string{}
		for _, cn := range comps {
			if strings.HasPrefix(cn, "AL_") {
				preAl[cn] = st.vars[cn]
				if preAl[cn] == "" {
					preAl[cn] = fx.h0(cn)
				}
			}
		}
		fx.havocHeap(st, comps)
		fx.allocMonotone(st, preAl)
		if c.HasModifies {
			mod := fx.modTerms(c, func() *SpecEnv { return mkEnv(pre, pre, "modifies") })
			if !c.QuietFrame {
				fx.frameFacts(st, pre, comps, mod)
			}
			fx.subFrame(pre, mod, key, pos)
		} else if fx.modSet != nil && len(comps) > 0 {
			nonAL := false
			for _, cn := range comps {
				if !strings.HasPrefix(cn, "AL_") && !strings.HasPrefix(cn, "GV_") {
					nonAL = true
				}
			}
			if nonAL {
				fx.oblige(pre, "frame-call", key, "false", "callee "+key+" has no modifies clause: its writes cannot be framed", pos)
			}
		}
	}
	results := fx.freshResults(st, sig, pre)
	rnames := make([]string, len(results))
	for i := range results {
		name := ""
		if len(c.Results) == len(results) {
			name = c.Results[i].Name
		} else if sig.Results().At(i).Name() != "" {
			name = sig.Results().At(i).Name()
		} else if len(results) == 1 {
			name = "result"
		} else {
			name = fmt.Sprintf("result%d", i)
		}
		rnames[i] = name
		bound[name] = results[i]
		if len(results) == 1 {
			bound["result"] = results[i]
		}
	}
	fx.callSeq++
	for i, en := range c.Ensures {
		env := mkEnv(st, pre, "ensures")
		tag := fmt.Sprintf("%s#%d.%d", shortCallee(c.Key), fx.callSeq, i+1)
		if en.Label != "" {
			tag = fmt.Sprintf("%s#%d.%s", shortCallee(c.Key), fx.callSeq, en.Label)
		}
		fx.assumeTagged(st, env.Bool(en.Expr), tag)
	}
	return results
}

func (fx *FuncExec) sameRecursionGroup(calleeKey string) bool {
	root := fx.rootKey()
	return calleeKey == fx.fi.Key || calleeKey == root || strings.HasPrefix(calleeKey, root+"$")
}

func (fx *FuncExec) evalConversion(st *State, call *ast.CallExpr, t types.Type) Term {
	v := fx.eval(st, call.Args[0])
	srt := fx.reg.SortOf(t)
	if v.Sort == nilSort {
		return Term{S: fx.reg.Zero(srt), Sort: srt, T: t}
	}
	if srt == "Int" && v.Sort == "Int" {
		return fx.wrapInt(Term{S: v.S, Sort: "Int"}, t)
	}
	if srt == "Any" {
		r := fx.boxTerm(v)
		r.T = t
		return r
	}
	if srt == v.Sort {
		return Term{S: v.S, Sort: srt, T: t}
	}
	fx.unsupported(call.Pos(), "conversion %s -> %s", v.Sort, srt)
	return Term{}
}

func (fx *FuncExec) shiftFun(es string) string {
	n := "shift_" + sanitize(es)
	if !fx.reg.declared[n] {
		arr := "(Array Int " + es + ")"
		fx.reg.declFun(n, fmt.Sprintf("(declare-fun %s (%s Int) %s)", n, arr, arr))
		fx.reg.axioms = append(fx.reg.axioms, fmt.Sprintf("(assert (forall ((a %s) (k Int) (i Int)) (! (= (select (%s a k) i) (select a (+ i k))) :pattern ((select (%s a k) i)))))", arr, n, n))
	}
	return n
}

// sliceContents returns the backing array of s normalised to offset 0.
func (fx *FuncExec) sliceContents(st *State, s Term, comp, es string) string {
	arr := sel(fx.H(st, comp), "(sref "+s.S+")")
	return ite(eq("(soff "+s.S+")", "0"), arr, "("+fx.shiftFun(es)+" "+arr+" (soff "+s.S+"))")
}

func (fx *FuncExec) evalBuiltin(st *State, call *ast.CallExpr, name string) []Term {
	switch name {
	case "len":
		v := fx.eval(st, call.Args[0])
		return []Term{fx.lenTerm(st, v)}
	case "cap":
		v := fx.eval(st, call.Args[0])
		c := fx.fresh("cap", "Int")
		st.assume("(>= " + c + " (slen " + v.S + "))")
		return []Term{{S: c, Sort: "Int", T: types.Typ[types.Int]}}
	case "panic":
		for _, a := range call.Args {
			fx.evalAny(st, a)
		}
		fx.oblige(st, "panic/explicit", "", "false", "explicit panic is unreachable: "+trunc(exprString(call), 80), call.Pos())
		st.assume("false")
		return nil
	case "delete":
		mt := fx.typeOf(call.Args[0]).Underlying().(*types.Map)
		mi := fx.reg.mapOf(mt)
		m := fx.eval(st, call.Args[0])
		k := fx.evalTo(st, call.Args[1], mt.Key())
		fx.mapDelete(st, mi, m.S, k.S)
		return nil
	case "new":
		t := fx.typeOf(call.Args[0])
		if si := fx.structValInfo(t); si != nil {
			return []Term{{S: fx.allocStruct(st, si), Sort: si.Sort, T: types.NewPointer(t), Fresh: true}}
		}
		pi := fx.reg.ptrOf(types.NewPointer(t))
		r := fx.alloc(st, pi.Sort, "new")
		fx.setHq(st, pi.Comp, store(fx.H(st, pi.Comp), r, fx.reg.Zero(fx.reg.SortOf(t))))
		return []Term{{S: r, Sort: pi.Sort, T: types.NewPointer(t)}}
	case "make":
		t := fx.typeOf(call.Args[0])
		switch u := t.Underlying().(type) {
		case *types.Map:
			for _, a := range call.Args[1:] {
				fx.eval(st, a)
			}
			mi := fx.reg.mapOf(u)
			m := fx.alloc(st, mi.Sort, "map")
			fx.setHq(st, mi.Dom, store(fx.H(st, mi.Dom), m, "((as const (Array "+mi.K+" Bool)) false)"))
			fx.setHq(st, mi.Val, store(fx.H(st, mi.Val), m, fx.reg.ZeroArr(mi.K, mi.V)))
			return []Term{{S: m, Sort: mi.Sort, T: t, Fresh: true}}
		case *types.Slice:
			n := fx.eval(st, call.Args[1])
			fx.oblige(st, "panic/makelen", "", "(>= "+n.S+" 0)", "make length non-negative", call.Pos())
			if len(call.Args) > 2 {
				cp := fx.eval(st, call.Args[2])
				fx.oblige(st, "panic/makelen", "", "(>= "+cp.S+" "+n.S+")", "make cap >= len", call.Pos())
			}
			es := fx.reg.SortOf(u.Elem())
			comp := fx.reg.sliceComp(u.Elem())
			ref := fx.alloc(st, "SRef", "make")
			if si := fx.structValInfo(u.Elem()); si != nil {
				// every element is its own fresh zero-valued struct object
				mk := fx.freshStructFamily(st, si)
				arr := fx.fresh("mkarr", "(Array Int "+es+")")
				st.assume(fmt.Sprintf("(forall ((i Int)) (! (= (select %s i) (%s i)) :pattern ((select %s i))))", arr, mk, arr))
				fx.setHq(st, comp, store(fx.H(st, comp), ref, arr))
				return []Term{{S: "(mk_slice " + ref + " 0 " + n.S + ")", Sort: "Slice", T: t, Fresh: true}}
			}
			fx.setHq(st, comp, store(fx.H(st, comp), ref, fx.reg.ZeroArr("Int", es)))
			return []Term{{S: "(mk_slice " + ref + " 0 " + n.S + ")", Sort: "Slice", T: t, Fresh: true}}
		}
		fx.unsupported(call.Pos(), "make of %s", t)
	case "append":
		stype := fx.typeOf(call.Args[0])
		u := stype.Underlying().(*types.Slice)
		es := fx.reg.SortOf(u.Elem())
		comp := fx.reg.sliceComp(u.Elem())
		s := fx.eval(st, call.Args[0])
		if s.Sort == nilSort {
			s = Term{S: "nil_slice", Sort: "Slice", T: stype}
		}
		if len(call.Args) == 1 {
			return []Term{s}
		}
		if call.Ellipsis.IsValid() {
			t := fx.eval(st, call.Args[1])
			if t.Sort == nilSort {
				return []Term{s}
			}
			a := fx.sliceContents(st, s, comp, es)
			b := fx.sliceContents(st, t, comp, es)
			// Go appends in place when the capacity allows (capacity is not modelled:
			// any append to a non-nil slice may be in place) and reallocates otherwise.
			inpl := fx.fresh("inplace", "Bool")
			cond := and(inpl, not(eq("(sref "+s.S+")", "null_SRef")))
			oldArr := sel(fx.H(st, comp), "(sref "+s.S+")")
			ref := fx.alloc(st, "SRef", "append")
			na := fx.fresh("apparr", "(Array Int "+es+")")
			fx.nq++
			i := fmt.Sprintf("i!a%d", fx.nq)
			st.assume(fmt.Sprintf("(forall ((%s Int)) (! (and (=> (and (<= 0 %s) (< %s (slen %s))) (= (select %s %s) (select %s %s))) (=> (and (<= (slen %s) %s) (< %s (+ (slen %s) (slen %s)))) (= (select %s %s) (select %s (- %s (slen %s)))))) :pattern ((select %s %s))))",
				i, i, i, s.S, na, i, a, i, s.S, i, i, s.S, t.S, na, i, b, i, s.S, na, i))
			ni := fx.fresh("apparr_inplace", "(Array Int "+es+")")
			base := "(+ (soff " + s.S + ") (slen " + s.S + "))"
			st.assume(fmt.Sprintf("(forall ((%s Int)) (! (= (select %s %s) (ite (and (<= %s %s) (< %s (+ %s (slen %s)))) (select %s (- %s %s)) (select %s %s))) :pattern ((select %s %s))))",
				i, ni, i, base, i, i, base, t.S, b, i, base, oldArr, i, ni, i))
			st.guards = append(st.guards, cond)
			fx.frameWrite(st, comp, "(sref "+s.S+")", call.Pos())
			st.guards = st.guards[:len(st.guards)-1]
			fx.setHq(st, comp, ite(cond, store(fx.H(st, comp), "(sref "+s.S+")", ni), store(fx.H(st, comp), ref, na)))
			n := "(+ (slen " + s.S + ") (slen " + t.S + "))"
			return []Term{{S: ite(cond, "(mk_slice (sref "+s.S+") (soff "+s.S+") "+n+")", "(mk_slice "+ref+" 0 "+n+")"), Sort: "Slice", T: stype}}
		}
		var vals []Term
		for _, a := range call.Args[1:] {
			v := fx.evalTo(st, a, u.Elem())
			if si := fx.structValInfo(u.Elem()); si != nil && !v.Fresh {
				v.S = fx.copyStruct(st, v.S, si, true)
			}
			vals = append(vals, v)
		}
		arr := fx.sliceContents(st, s, comp, es)
		inpl := fx.fresh("inplace", "Bool")
		cond := and(inpl, not(eq("(sref "+s.S+")", "null_SRef")))
		arrIn := sel(fx.H(st, comp), "(sref "+s.S+")")
		ref := fx.alloc(st, "SRef", "append")
		for i, v := range vals {
			arr = store(arr, fmt.Sprintf("(+ (slen %s) %d)", s.S, i), v.S)
			arrIn = store(arrIn, fmt.Sprintf("(+ (+ (soff %s) (slen %s)) %d)", s.S, s.S, i), v.S)
		}
		st.guards = append(st.guards, cond)
		fx.frameWrite(st, comp, "(sref "+s.S+")", call.Pos())
		st.guards = st.guards[:len(st.guards)-1]
		fx.setHq(st, comp, ite(cond, store(fx.H(st, comp), "(sref "+s.S+")", arrIn), store(fx.H(st, comp), ref, arr)))
		n := fmt.Sprintf("(+ (slen %s) %d)", s.S, len(vals))
		return []Term{{S: ite(cond, "(mk_slice (sref "+s.S+") (soff "+s.S+") "+n+")", "(mk_slice "+ref+" 0 "+n+")"), Sort: "Slice", T: stype}}
	case "copy":
		dt := fx.typeOf(call.Args[0])
		u := dt.Underlying().(*types.Slice)
		es := fx.reg.SortOf(u.Elem())
		comp := fx.reg.sliceComp(u.Elem())
		d := fx.eval(st, call.Args[0])
		s := fx.eval(st, call.Args[1])
		n := fx.fresh("ncopy", "Int")
		st.assume(eq(n, ite("(<= (slen "+d.S+") (slen "+s.S+"))", "(slen "+d.S+")", "(slen "+s.S+")")))
		src := sel(fx.H(st, comp), "(sref "+s.S+")")
		old := sel(fx.H(st, comp), "(sref "+d.S+")")
		na := fx.fresh("cparr", "(Array Int "+es+")")
		fx.nq++
		i := fmt.Sprintf("i!c%d", fx.nq)
		st.assume(fmt.Sprintf("(forall ((%s Int)) (! (= (select %s %s) (ite (and (<= (soff %s) %s) (< %s (+ (soff %s) %s))) (select %s (+ (- %s (soff %s)) (soff %s))) (select %s %s))) :pattern ((select %s %s))))",
			i, na, i, d.S, i, i, d.S, n, src, i, d.S, s.S, old, i, na, i))
		st.guards = append(st.guards, and(not(eq("(sref "+d.S+")", "null_SRef")), "(> "+n+" 0)"))
		fx.frameWrite(st, comp, "(sref "+d.S+")", call.Pos())
		st.guards = st.guards[:len(st.guards)-1]
		fx.setH(st, comp, ite(eq("(sref "+d.S+")", "null_SRef"), fx.H(st, comp), store(fx.H(st, comp), "(sref "+d.S+")", na)))
		return []Term{{S: n, Sort: "Int", T: types.Typ[types.Int]}}
	case "min", "max":
		a := fx.eval(st, call.Args[0])
		b := fx.eval(st, call.Args[1])
		op := "<="
		if name == "max" {
			op = ">="
		}
		return []Term{{S: ite("("+op+" "+a.S+" "+b.S+")", a.S, b.S), Sort: "Int", T: a.T}}
	}
	fx.unsupported(call.Pos(), "builtin %s", name)
	return nil
}

func sortedStrKeys(m map[string]string) []string {
	ks := make([]string, 0, len(m))
	for k := range m {
		ks = append(ks, k)
	}
	sort.Strings(ks)
	return ks
}

func argTupleType(fx *FuncExec, call *ast.CallExpr) types.Type {
	if len(call.Args) != 1 {
		return nil
	}
	return fx.typeOf(call.Args[0])
}

// freshStructFamily declares an injective family mk(i) of fresh, distinct,
// zero-initialised struct objects (used for make([]Struct, n)).
func (fx *FuncExec) freshStructFamily(st *State, si *StructInfo) string {
	fx.nfresh++
	mk := fmt.Sprintf("mkelem!%d", fx.nfresh)
	fx.decls = append(fx.decls, fmt.Sprintf("(declare-fun %s (Int) %s)", mk, si.Sort))
	oldAl := fx.H(st, si.Alloc)
	newAl := fx.fresh(si.Alloc, fx.reg.compSort[si.Alloc])
	st.vars[si.Alloc] = newAl
	var zf []string
	for _, f := range si.Fields {
		if sub := fx.structValInfo(si.FieldT[f]); sub != nil {
			inner := fx.freshStructFamily(st, sub)
			zf = append(zf, eq(sel(fx.H(st, si.Comp[f]), "("+mk+" i)"), "("+inner+" i)"))
			continue
		}
		zf = append(zf, eq(sel(fx.H(st, si.Comp[f]), "("+mk+" i)"), fx.reg.Zero(fx.reg.SortOf(si.FieldT[f]))))
	}
	st.assume(fmt.Sprintf("(forall ((i Int)) (! (and (not (= (%s i) null_%s)) (not (select %s (%s i))) (select %s (%s i)) %s) :pattern ((%s i))))",
		mk, si.Sort, oldAl, mk, newAl, mk, and(zf...), mk))
	st.assume(fmt.Sprintf("(forall ((i Int) (j Int)) (! (=> (= (%s i) (%s j)) (= i j)) :pattern ((%s i) (%s j))))", mk, mk, mk, mk))
	st.assume(fmt.Sprintf("(forall ((r %s)) (! (=> (select %s r) (select %s r)) :pattern ((select %s r))))", si.Sort, oldAl, newAl, newAl))
	return mk
}

// dispatchCall handles a call through a function value of a named func type
// by case analysis over the function literals of that type that carry a
// contract: under fn_code(self) == code(L) the literal L's contract applies,
// with L's captured variables read through the cap_ functions recorded when
// the closure was created. For a `closedtype` the case analysis is assumed
// exhaustive (every non-nil value of the type is one of those closures).
func (fx *FuncExec) dispatchCall(st *State, call *ast.CallExpr, sig *types.Signature, self Term, args []Term) ([]Term, bool) {
	ft := fx.typeOf(call.Fun)
	named, ok := types.Unalias(ft).(*types.Named)
	if !ok || named.Obj().Pkg() == nil {
		return nil, false
	}
	tkey := named.Obj().Pkg().Name() + "." + named.Obj().Name()
	closed := false
	for _, c := range fx.ctx.spec.Closed {
		if c == tkey {
			closed = true
		}
	}
	if !closed {
		return nil, false
	}
	type cand struct {
		li *FuncInfo
		c  *Contract
	}
	var cands []cand
	for _, k := range fx.ctx.order {
		li := fx.ctx.funcs[k]
		if li.Lit == nil || !types.Identical(li.Sig, sig) {
			continue
		}
		// only literals that are converted to this named type at their creation site
		if lt := li.Pkg.TypesInfo.Types[li.Lit].Type; lt == nil {
			continue
		}
		c := fx.ctx.spec.Contracts[k]
		if c == nil {
			fx.uncontr["literal-without-contract:"+k] = true
			continue
		}
		c.Used = true
		cands = append(cands, cand{li, c})
	}
	if len(cands) == 0 {
		return nil, false
	}
	fx.reg.declFun("fn_code", "(declare-fun fn_code (Fn) Int)")
	fx.oblige(st, "panic/nilfunc", "", not(eq(self.S, "fn_nil")), "called function value is non-nil: "+trunc(exprString(call.Fun), 40), call.Pos())
	if fx.forced == -1 && fx.loopDepth > 0 {
		panic(splitSignal{len(cands)}) // re-execute the enclosing loop body once per candidate
	}
	if fx.forced >= 0 && fx.forced < len(cands) {
		cd := cands[fx.forced]
		fx.forced = -2
		short := cd.li.Key
		if i := strings.LastIndex(short, "."); i >= 0 {
			short = short[i+1:]
		}
		fx.suffix = "@" + short
		st.assume(eq("(fn_code "+self.S+")", fmt.Sprint(fx.ctx.litCode(cd.li.Key))))
		caps := map[string]Term{}
		lfx := &FuncExec{ctx: fx.ctx, reg: fx.reg, pkg: cd.li.Pkg, info: cd.li.Pkg.TypesInfo, fi: cd.li}
		for _, v := range lfx.freeVars(cd.li.Lit) {
			uf := "cap_" + sanitize(cd.li.Key) + "_" + v.Name()
			vs := fx.reg.SortOf(v.Type())
			fx.reg.declFun(uf, fmt.Sprintf("(declare-fun %s (Fn) %s)", uf, vs))
			caps[v.Name()] = Term{S: "(" + uf + " " + self.S + ")", Sort: vs, T: v.Type()}
		}
		selfCopy := self
		return fx.applyContract(st, cd.c, cd.li.Key, cd.li.Pkg.Types, cd.li.Sig, nil, &selfCopy, args, call.Pos(), caps), true
	}
	// one branch per candidate literal (closed world: exactly these), merged afterwards
	var outs []*State
	nres := sig.Results().Len()
	for _, cd := range cands {
		b := st.clone()
		b.assume(eq("(fn_code "+self.S+")", fmt.Sprint(fx.ctx.litCode(cd.li.Key))))
		caps := map[string]Term{}
		lfx := &FuncExec{ctx: fx.ctx, reg: fx.reg, pkg: cd.li.Pkg, info: cd.li.Pkg.TypesInfo, fi: cd.li}
		for _, v := range lfx.freeVars(cd.li.Lit) {
			uf := "cap_" + sanitize(cd.li.Key) + "_" + v.Name()
			vs := fx.reg.SortOf(v.Type())
			fx.reg.declFun(uf, fmt.Sprintf("(declare-fun %s (Fn) %s)", uf, vs))
			caps[v.Name()] = Term{S: "(" + uf + " " + self.S + ")", Sort: vs, T: v.Type()}
		}
		selfCopy := self
		rs := fx.applyContract(b, cd.c, cd.li.Key, cd.li.Pkg.Types, cd.li.Sig, nil, &selfCopy, args, call.Pos(), caps)
		for i := 0; i < nres && i < len(rs); i++ {
			k := fmt.Sprintf("D:res%d@%d", i, call.Pos())
			fx.varSort[k] = rs[i].Sort
			b.vars[k] = rs[i].S
		}
		outs = append(outs, b)
	}
	merged := fx.mergeStates(outs)
	st.vars = merged.vars
	st.pc = merged.pc
	var results []Term
	for i := 0; i < nres; i++ {
		k := fmt.Sprintf("D:res%d@%d", i, call.Pos())
		t := sig.Results().At(i).Type()
		results = append(results, Term{S: st.vars[k], Sort: fx.varSort[k], T: t})
		delete(st.vars, k)
	}
	return results, true
}

func (fx *FuncExec) subFrameGuarded(pre *State, mod map[string][]string, key string, pos token.Pos, guard string) {
	if fx.modSet == nil {
		return
	}
	pre = pre.clone()
	pre.assume(guard)
	fx.subFrame(pre, mod, key, pos)
}

// subFrame: the callee's modifies set must lie within this function's own
// modifies set (or consist of objects allocated since entry).
func (fx *FuncExec) subFrame(pre *State, mod map[string][]string, key string, pos token.Pos) {
	if fx.modSet == nil {
		return
	}
	for _, ks := range sortedKeysSS(mod) {
		al, ok := fx.reg.allocOf[ks]
		if !ok {
			continue
		}
		entryAl := fx.entry.vars[al]
		if entryAl == "" {
			entryAl = fx.h0(al)
		}
		for _, m := range mod[ks] {
			zero := fx.reg.Zero(ks)
			if strings.HasPrefix(m, "?pred:") {
				fx.nq++
				r := fmt.Sprintf("r!m%d", fx.nq)
				cond := strings.ReplaceAll(strings.TrimPrefix(m, "?pred:"), "%R%", r)
				fx.oblige(pre, "frame-call", key, fmt.Sprintf("(forall ((%s %s)) (=> %s %s))", r, ks, and(cond, sel(entryAl, r), not(eq(r, zero))), or(inSetTerms(r, fx.modSet[ks])...)), "callee's modifies set is within the caller's (comprehension)", pos)
				continue
			}
			ins := inSetTerms(m, fx.modSet[ks])
			fx.oblige(pre, "frame-call", key, imp(and(sel(entryAl, m), not(eq(m, zero))), or(ins...)), "callee's modifies set is within the caller's: "+trunc(m, 60), pos)
		}
	}
}

func sortedKeysSS(m map[string][]string) []string {
	ks := make([]string, 0, len(m))
	for k := range m {
		ks = append(ks, k)
	}
	sort.Strings(ks)
	return ks
}


// pinnedDispatch: the contract names the closure a func-valued variable holds
// (dispatch <var> "<literal key>"). The call is then a call of that literal:
// an obligation checks that the value's code really is that literal's, and the
// literal's contract is applied with its captured variables read through the
// cap_ functions of the value.
func (fx *FuncExec) pinnedDispatch(st *State, call *ast.CallExpr, sig *types.Signature, self Term, args []Term) ([]Term, bool) {
	if fx.contract == nil || fx.contract.Dispatch == nil {
		return nil, false
	}
	id, ok := call.Fun.(*ast.Ident)
	if !ok {
		return nil, false
	}
	lk, ok := fx.contract.Dispatch[id.Name]
	if !ok {
		return nil, false
	}
	li := fx.ctx.funcs[lk]
	c := fx.ctx.spec.Contracts[lk]
	if li == nil || li.Lit == nil || c == nil {
		fx.uncontr["dispatch-target-without-contract:"+lk] = true
		return nil, false
	}
	c.Used = true
	fx.reg.declFun("fn_code", "(declare-fun fn_code (Fn) Int)")
	fx.oblige(st, "panic/nilfunc", "", not(eq(self.S, "fn_nil")), "called function value is non-nil: "+id.Name, call.Pos())
	fx.oblige(st, "dispatch", id.Name, eq("(fn_code "+self.S+")", fmt.Sprint(fx.ctx.litCode(lk))), id.Name+" is the closure "+lk, call.Pos())
	caps := map[string]Term{}
	lfx := &FuncExec{ctx: fx.ctx, reg: fx.reg, pkg: li.Pkg, info: li.Pkg.TypesInfo, fi: li}
	for _, v := range lfx.freeVars(li.Lit) {
		uf := "cap_" + sanitize(lk) + "_" + v.Name()
		vs := fx.reg.SortOf(v.Type())
		fx.reg.declFun(uf, fmt.Sprintf("(declare-fun %s (Fn) %s)", uf, vs))
		caps[v.Name()] = Term{S: "(" + uf + " " + self.S + ")", Sort: vs, T: v.Type()}
	}
	selfCopy := self
	return fx.applyContract(st, c, lk, li.Pkg.Types, li.Sig, nil, &selfCopy, args, call.Pos(), caps), true
}

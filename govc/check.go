package main

// check.go — the per-property check: claimed obligations must be generated
// and discharged; failures are tied to the real code by a replay harness;
// evidence is written on every run.

import (
	"regexp"
	"bufio"
	"encoding/json"
	"flag"
	"fmt"
	"os"
	"os/exec"
	"path/filepath"
	"sort"
	"strconv"
	"strings"
	"time"
)

type Claims struct {
	ID          string
	Funcs       []string
	Obls        []string
	Lemmas      []string
	Harness     string // directory under /verif/replay with the bounded replay/search harness
	HarnessPkg  string // package (relative to repo) the harness is injected into
	HarnessRun  string // -run pattern
	Assumptions []string
	Level       string
	Bounded     []string // names of bounded stand-ins (run on every check)
	HarnessRace bool     // run the harness under the Go race detector
	OnlyKinds   []string // when set, only obligations of these kinds are claimed
	Notes       []string
	Includes    []string // properties whose proved contracts this property depends on: their checks (obligations only) are re-run as part of this check
}

func readClaims(path string) (*Claims, error) {
	f, err := os.Open(path)
	if err != nil {
		return nil, err
	}
	defer f.Close()
	c := &Claims{Level: "proof"}
	sc := bufio.NewScanner(f)
	sc.Buffer(make([]byte, 1<<20), 1<<20)
	for sc.Scan() {
		ln := strings.TrimSpace(sc.Text())
		if ln == "" || strings.HasPrefix(ln, "#") {
			continue
		}
		i := strings.IndexAny(ln, " \t")
		if i < 0 {
			continue
		}
		kw, rest := ln[:i], strings.TrimSpace(ln[i:])
		switch kw {
		case "func":
			c.Funcs = append(c.Funcs, rest)
		case "claim":
			c.Obls = append(c.Obls, rest)
		case "lemma":
			c.Lemmas = append(c.Lemmas, rest)
		case "harness":
			c.Harness = rest
		case "harness-pkg":
			c.HarnessPkg = rest
		case "harness-run":
			c.HarnessRun = rest
		case "assume":
			c.Assumptions = append(c.Assumptions, rest)
		case "level":
			c.Level = rest
		case "harness-race":
			c.HarnessRace = true
		case "only-kinds":
			// restrict the claimed set to obligations of these kinds (prefix match)
			for _, k := range strings.Split(rest, ",") {
				if k = strings.TrimSpace(k); k != "" {
					c.OnlyKinds = append(c.OnlyKinds, k)
				}
			}
		case "bounded":
			c.Bounded = append(c.Bounded, rest)
		case "note":
			c.Notes = append(c.Notes, rest)
		case "include":
			c.Includes = append(c.Includes, rest)
		}
	}
	return c, sc.Err()
}

type KnownFinding struct {
	Property   string `json:"property"`
	Obligation string `json:"obligation"`
	Input      string `json:"input,omitempty"` // regexp on a FAILING-INPUT line of the bounded harness: the specific failing inputs this finding stands for
	InputsFile string `json:"inputs_file,omitempty"` // file under /verif listing exactly the failing inputs (normalised FAILING-INPUT lines) the finding stands for
	What       string `json:"what"`
	Status     string `json:"status"` // "known" or "fixed"
	Commit     string `json:"commit,omitempty"`
}

func readKnown(path string) []KnownFinding {
	var out []KnownFinding
	data, err := os.ReadFile(path)
	if err != nil {
		return nil
	}
	for _, ln := range strings.Split(string(data), "\n") {
		ln = strings.TrimSpace(ln)
		if ln == "" || strings.HasPrefix(ln, "#") {
			continue
		}
		var k KnownFinding
		if json.Unmarshal([]byte(ln), &k) == nil {
			out = append(out, k)
		}
	}
	return out
}

type oblEvidence struct {
	Name   string  `json:"name"`
	Kind   string  `json:"kind"`
	Pos    string  `json:"pos"`
	Status string  `json:"status"`
	Solver string  `json:"solver"`
	TimeS  float64 `json:"time_s"`
	Goal   string  `json:"goal,omitempty"`
}

func verifRoot() string {
	if d := os.Getenv("VERIF_ROOT"); d != "" {
		return d
	}
	exe, _ := os.Executable()
	return filepath.Dir(filepath.Dir(exe))
}

// runHarness injects the harness test files into the package with -overlay
// and runs them against the real code. Returns ok, output.
func runHarness(repo, harnessDir, pkgRel, runPat, tier string, seed int, extraEnv []string) (bool, string, float64) {
	start := time.Now()
	files, _ := filepath.Glob(filepath.Join(harnessDir, "*_test.go"))
	if len(files) == 0 {
		return true, "no harness files in " + harnessDir, 0
	}
	tmp, err := os.MkdirTemp("", "govc-ov-")
	if err != nil {
		return true, err.Error(), 0
	}
	defer os.RemoveAll(tmp)
	ov := map[string]map[string]string{"Replace": {}}
	pkgDir := filepath.Join(repo, pkgRel)
	for _, f := range files {
		ov["Replace"][filepath.Join(pkgDir, "zz_verif_"+filepath.Base(f))] = f
	}
	data, _ := json.Marshal(ov)
	ovf := filepath.Join(tmp, "overlay.json")
	os.WriteFile(ovf, data, 0o644)
	timeout := "120s"
	if tier == "thorough" {
		timeout = "900s"
	}
	args := []string{"test", "-overlay", ovf, "-vet=off", "-count=1", "-timeout", timeout}
	for _, e := range extraEnv {
		if e == "VERIF_RACE=1" {
			args = append(args, "-race")
		}
	}
	if runPat != "" {
		args = append(args, "-run", runPat)
	}
	args = append(args, "./"+pkgRel)
	cmd := exec.Command("go", args...)
	cmd.Dir = repo
	cmd.Env = append(os.Environ(), "GOFLAGS=-mod=mod", "GOPROXY=off", "GOSUMDB=off", "GOTOOLCHAIN=local",
		"VERIF_TIER="+tier, "VERIF_SEED="+strconv.Itoa(seed), "GOCACHE="+goCache())
	cmd.Env = append(cmd.Env, extraEnv...)
	out, err := cmd.CombinedOutput()
	return err == nil, raceLines(string(out)), time.Since(start).Seconds()
}

var raceTestRe = regexp.MustCompile(`TestVerif[A-Za-z0-9]+`)

// raceLines appends one FAILING-INPUT line per data-race report of the Go
// race detector: "data race between <function> and <function>".
func raceLines(out string) string {
	if !strings.Contains(out, "WARNING: DATA RACE") {
		return out
	}
	ls := strings.Split(out, "\n")
	seen := map[string]bool{}
	var extra []string
	for i := 0; i < len(ls); i++ {
		if !strings.HasPrefix(ls[i], "WARNING: DATA RACE") {
			continue
		}
		var fns []string
		for j := i + 1; j < len(ls) && !strings.HasPrefix(ls[j], "=================="); j++ {
			t := strings.TrimSpace(ls[j])
			if (strings.HasPrefix(t, "Read at") || strings.HasPrefix(t, "Write at") || strings.HasPrefix(t, "Previous read at") || strings.HasPrefix(t, "Previous write at")) && j+1 < len(ls) {
				f := strings.TrimSpace(ls[j+1])
				if k := strings.LastIndex(f, "/"); k >= 0 {
					f = f[k+1:]
				}
				fns = append(fns, strings.TrimSuffix(f, "()"))
			}
		}
		sort.Strings(fns)
		test := ""
		for j := i + 1; j < len(ls) && !strings.HasPrefix(ls[j], "=================="); j++ {
			if m := raceTestRe.FindString(ls[j]); m != "" {
				test = m
				break
			}
		}
		line := "FAILING-INPUT data race in " + test + " between " + strings.Join(fns, " and ")
		if !seen[line] {
			seen[line] = true
			extra = append(extra, line)
		}
	}
	return out + "\n" + strings.Join(extra, "\n") + "\n"
}

func goCache() string {
	if d := os.Getenv("GOCACHE"); d != "" {
		return d
	}
	out, err := exec.Command("go", "env", "GOCACHE").Output()
	if err == nil {
		return strings.TrimSpace(string(out))
	}
	return filepath.Join(os.TempDir(), "gocache")
}

func cmdCheck(args []string) int {
	fs := flag.NewFlagSet("check", flag.ExitOnError)
	tier := fs.String("tier", "", "quick|thorough")
	repo := fs.String("repo", "/repo", "repository")
	replay := fs.String("replay", "", "re-run the replay recorded in this file")
	par := fs.Int("j", 5, "parallel obligations")
	asIncluded := fs.Bool("as-included", false, "internal: run as a dependency of another property's check (obligations only, no tier escalation)")
	writeClaims := fs.Bool("write-claims", false, "development: (re)write the claim lines from the currently discharged obligations")
	if len(args) < 1 {
		fmt.Fprintln(os.Stderr, "usage: govc check <ID> [--tier quick|thorough]")
		return 2
	}
	id := args[0]
	fs.Parse(args[1:])
	if *tier == "" {
		*tier = os.Getenv("VERIF_TIER")
	}
	if *tier == "" {
		*tier = "quick"
	}
	seed := 0
	if s := os.Getenv("VERIF_SEED"); s != "" {
		seed, _ = strconv.Atoi(s)
	}
	root := verifRoot()
	start := time.Now()
	claims, err := readClaims(filepath.Join(root, "claims", id+".txt"))
	if err != nil {
		fmt.Fprintln(os.Stderr, "claims:", err)
		return 2
	}
	claims.ID = id
	if *replay != "" {
		return doReplay(root, *repo, claims, *replay, *tier, seed)
	}
	timeout := 12
	if *tier == "thorough" {
		timeout = 90
		noCache = true
	}
	if cacheDir == "" && !noCache {
		cacheDir = filepath.Join(root, ".cache")
	}
	ctx, err := Load(*repo, specFiles())
	if err != nil {
		fmt.Println("load error:", err)
		// the tree does not load (e.g. does not compile): nothing can be decided deductively
		fmt.Fprintln(os.Stderr, "cannot load /repo with tag verif:", err)
		return 2
	}
	// generate
	generated := map[string]*Obligation{}
	var funcErrs []string
	var uncontr []string
	var allObls []*Obligation
	for _, k := range claims.Funcs {
		r := ctx.RunFunc(k)
		if r.Error != "" {
			funcErrs = append(funcErrs, k+": "+r.Error)
		}
		for _, u := range r.Uncontr {
			uncontr = append(uncontr, k+" -> "+u)
		}
		for _, o := range r.Obls {
			generated[o.Name] = o
			allObls = append(allObls, o)
		}
	}
	lemmaObls := ctx.LemmaObligations(claims.Lemmas)
	for _, o := range lemmaObls {
		generated[o.Name] = o
		allObls = append(allObls, o)
	}
	if *writeClaims {
		return rewriteClaims(root, id, claims, ctx, allObls, timeout, *par)
	}
	var claimed []*Obligation
	var missing []string
	retRe := regexp.MustCompile(`@ret[0-9]+`)
	byBase := map[string][]*Obligation{}
	for _, o := range allObls {
		b := retRe.ReplaceAllString(o.Name, "")
		byBase[b] = append(byBase[b], o)
	}
	taken := map[string]bool{}
	for _, name := range claims.Obls {
		if o, ok := generated[name]; ok {
			if !taken[o.Name] {
				claimed = append(claimed, o)
				taken[o.Name] = true
			}
			continue
		}
		// the number of return paths changed: a claimed postcondition stands for
		// the postcondition on every return path
		if strings.Contains(name, "/ensures") {
			if os2 := byBase[retRe.ReplaceAllString(name, "")]; len(os2) > 0 {
				for _, o := range os2 {
					if !taken[o.Name] {
						claimed = append(claimed, o)
						taken[o.Name] = true
					}
				}
				continue
			}
		}
		missing = append(missing, name)
	}
	claimedSet := map[string]bool{}
	for _, n := range claims.Obls {
		claimedSet[n] = true
	}
	var unclaimed []*Obligation
	for _, o := range allObls {
		if !claimedSet[o.Name] {
			unclaimed = append(unclaimed, o)
		}
	}
	ds := dischargeAll(ctx, claimed, timeout, *par, os.Getenv("VERIF_DUMP"))
	nUndecided := 0
	for _, d := range ds {
		if !d.OK() {
			nUndecided++
		}
	}
	var harnessOut string
	harnessRan := false
	harnessOK := true
	harnessT := 0.0
	var harnessKnown []string
	runH := func() {
		if harnessRan || claims.Harness == "" {
			return
		}
		harnessRan = true
		var hEnv []string
		if claims.HarnessRace {
			hEnv = append(hEnv, "VERIF_RACE=1")
		}
		harnessOK, harnessOut, harnessT = runHarness(*repo, filepath.Join(root, "replay", claims.Harness), claims.HarnessPkg, claims.HarnessRun, *tier, seed, hEnv)
		if !harnessOK {
			// failing inputs that are listed known findings do not count; anything else does
			kfs := readKnown(filepath.Join(root, "known_findings.jsonl"))
			var lines, unmatched []string
			for _, l := range strings.Split(harnessOut, "\n") {
				if strings.Contains(l, "FAILING-INPUT") {
					lines = append(lines, l)
				}
			}
			hit := map[int]bool{}
			listed := map[int]map[string]bool{}
			for i, kf := range kfs {
				if kf.Property == id && kf.Status == "known" && kf.InputsFile != "" {
					listed[i] = map[string]bool{}
					if data, err := os.ReadFile(filepath.Join(root, kf.InputsFile)); err == nil {
						for _, ln := range strings.Split(string(data), "\n") {
							if ln = strings.TrimSpace(ln); ln != "" {
								listed[i][ln] = true
							}
						}
					}
				}
			}
			for _, l := range lines {
				ok := false
				norm := normFailing(l)
				for i, kf := range kfs {
					if kf.Property != id || kf.Status != "known" {
						continue
					}
					if kf.Input != "" {
						re, err := regexp.Compile(kf.Input)
						if err != nil || !re.MatchString(l) {
							continue
						}
					} else if kf.InputsFile == "" {
						continue
					}
					if kf.InputsFile != "" && !listed[i][norm] {
						continue // same symptom, but not one of the inputs the finding lists: a different violation
					}
					ok = true
					hit[i] = true
					break
				}
				if !ok {
					unmatched = append(unmatched, l)
				}
			}
			if len(lines) > 0 && len(unmatched) == 0 {
				harnessOK = true
				for i := range kfs {
					if hit[i] {
						harnessKnown = append(harnessKnown, fmt.Sprintf("KNOWN-FINDING: property=%s %s", id, kfs[i].What))
					}
				}
			} else if len(unmatched) > 0 && len(unmatched) < len(lines) {
				if len(unmatched) > 30 {
					unmatched = unmatched[:30]
				}
				harnessOut = tail(harnessOut, 2000) + "\nfailing inputs not covered by a known finding:\n" + strings.Join(unmatched, "\n")
			}
		}
	}
	if nUndecided > 0 {
		// tie undecided obligations to the real code first; only when the bounded
		// harness finds no failing input are the solvers given a second chance
		runH()
		if harnessOK {
			retryUndecided(ds, timeout, 12)
		}
	}
	var unclDs []Discharged
	if *tier == "thorough" {
		// the thorough tier also tries (a sample of) the obligations that are not
		// claimed, for the record only: their status is reported, never judged
		sample := unclaimed
		if len(sample) > 40 {
			step := len(sample) / 40
			var pick []*Obligation
			for i := 0; i < len(sample) && len(pick) < 40; i += step {
				pick = append(pick, sample[i])
			}
			sample = pick
		}
		unclDs = dischargeAll(ctx, sample, 10, *par, "")
	}
	solverTime := 0.0
	var evid []oblEvidence
	var failed []Discharged
	bySolver := map[string]int{}
	for _, d := range ds {
		solverTime += d.R.TimeS
		st := d.R.Status
		if d.OK() {
			bySolver[d.R.Solver]++
			if d.O.Expect == "sat" {
				st = "not-refutable(" + st + ")"
			}
		} else {
			failed = append(failed, d)
		}
		evid = append(evid, oblEvidence{Name: d.O.Name, Kind: d.O.Kind, Pos: d.O.Pos, Status: st, Solver: d.R.Solver, TimeS: round3(d.R.TimeS)})
	}
	known := readKnown(filepath.Join(root, "known_findings.jsonl"))
	isKnown := func(obl string) *KnownFinding {
		for i := range known {
			if known[i].Property == id && known[i].Obligation == obl && known[i].Status == "known" && known[i].Input == "" && known[i].InputsFile == "" {
				return &known[i]
			}
		}
		return nil
	}
	violations := 0
	exit := 0
	// bounded stand-ins and the thorough tier always run the harness
	if len(claims.Bounded) > 0 || *tier == "thorough" {
		runH()
	}
	outRoot := root
	if d := os.Getenv("VERIF_OUT"); d != "" {
		outRoot = d // self-test runs on scratch trees keep their evidence and replays apart
	}
	replDir := filepath.Join(outRoot, "replays", id)
	writeReplay := func(name string, payload map[string]interface{}) string {
		os.MkdirAll(replDir, 0o755)
		p := filepath.Join(replDir, sanitize(name)+".json")
		data, _ := json.MarshalIndent(payload, "", " ")
		os.WriteFile(p, data, 0o644)
		return p
	}
	var knownLines []string
	for _, d := range failed {
		if kf := isKnown(d.O.Name); kf != nil {
			knownLines = append(knownLines, fmt.Sprintf("KNOWN-FINDING: property=%s %s: %s", id, d.O.Name, kf.What))
			continue
		}
		runH()
		violations++
		exit = 1
		payload := map[string]interface{}{
			"property": id, "obligation": d.O.Name, "kind": d.O.Kind, "pos": d.O.Pos, "goal": d.O.Goal,
			"solver_status": d.R.Status, "solver_output": d.R.Output, "expected": d.O.Expect,
			"harness": claims.Harness, "harness_pkg": claims.HarnessPkg, "harness_run": claims.HarnessRun,
		}
		if d.R.Status == "sat" && d.O.Expect == "unsat" {
			payload["model"] = GetModel(d.O.Render(""), d.R.Solver, 10)
		}
		suffix := ""
		if claims.Harness != "" && !harnessOK {
			payload["failing_input_found"] = true
			payload["harness_output"] = tail(harnessOut, 6000)
		} else {
			payload["failing_input_found"] = false
			payload["harness_output"] = tail(harnessOut, 2000)
			suffix = " no-failing-input-found"
		}
		p := writeReplay(d.O.Name, payload)
		fmt.Printf("FAILED-OBLIGATION %s status=%s goal=%s\n", d.O.Name, d.R.Status, trunc(d.O.Goal, 200))
		fmt.Printf("VIOLATION property=%s replay=%s%s\n", id, p, suffix)
	}
	for _, l := range knownLines {
		fmt.Println(l)
	}
	for _, l := range harnessKnown {
		fmt.Println(l)
	}
	// bounded stand-in failure (or thorough harness failure) without a failed obligation
	if harnessRan && !harnessOK && violations == 0 {
		// is it a known finding?
		if kf := isKnown("harness:" + claims.Harness); kf != nil {
			fmt.Printf("KNOWN-FINDING: property=%s harness %s: %s\n", id, claims.Harness, kf.What)
		} else {
			violations++
			exit = 1
			p := writeReplay("harness_"+claims.Harness, map[string]interface{}{"property": id, "obligation": "harness:" + claims.Harness, "failing_input_found": true,
				"harness": claims.Harness, "harness_pkg": claims.HarnessPkg, "harness_run": claims.HarnessRun, "harness_output": tail(harnessOut, 6000)})
			fmt.Printf("VIOLATION property=%s replay=%s\n", id, p)
		}
	}
	// stale contracts: claimed obligations that were not generated
	undecided := 0
	if len(missing) > 0 || len(funcErrs) > 0 {
		runH()
		for _, e := range funcErrs {
			fmt.Printf("UNDECIDED reason=stale-contract %s\n", e)
		}
		for _, m := range missing {
			fmt.Printf("UNDECIDED reason=not-generated %s\n", m)
			undecided++
		}
		if len(funcErrs) > 0 && (claims.Harness == "" || harnessOK) && violations == 0 {
			// the contract of a function under contract no longer applies to its code:
			// the claimed obligations cannot be generated, the proof is void
			violations++
			exit = 1
			p := writeReplay("stale_contract", map[string]interface{}{"property": id, "obligation": "stale-contract", "missing": missing, "errors": funcErrs,
				"failing_input_found": false, "harness": claims.Harness, "harness_pkg": claims.HarnessPkg, "harness_run": claims.HarnessRun, "harness_output": tail(harnessOut, 2000),
				"explanation": "the contract refers to code that changed; the obligations generated from it on the unchanged tree cannot be generated any more"})
			fmt.Printf("VIOLATION property=%s replay=%s no-failing-input-found\n", id, p)
		}
		if claims.Harness != "" && !harnessOK && violations == 0 {
			violations++
			exit = 1
			p := writeReplay("stale_"+claims.Harness, map[string]interface{}{"property": id, "obligation": "stale-contract", "missing": missing, "errors": funcErrs,
				"failing_input_found": true, "harness": claims.Harness, "harness_pkg": claims.HarnessPkg, "harness_run": claims.HarnessRun, "harness_output": tail(harnessOut, 6000)})
			fmt.Printf("VIOLATION property=%s replay=%s\n", id, p)
		}
	}
	// dependencies: the contracts proved under the included properties are used at
	// call sites here; a change that breaks one of them breaks this property's
	// argument too. Each included check runs as its own process (same obligations,
	// same cache entries as that property's own check), quick tier, into a scratch
	// output directory; its failed obligations are reported as violations of this
	// property.
	var included []map[string]interface{}
	if !*asIncluded {
		seen := map[string]bool{id: true}
		queue := append([]string(nil), claims.Includes...)
		for len(queue) > 0 {
			inc := queue[0]
			queue = queue[1:]
			if seen[inc] {
				continue
			}
			seen[inc] = true
			if ic, err := readClaims(filepath.Join(root, "claims", inc+".txt")); err == nil {
				queue = append(queue, ic.Includes...)
				for _, a := range ic.Assumptions {
					claims.Assumptions = append(claims.Assumptions, "[via "+inc+"] "+a)
				}
			}
			scratch, _ := os.MkdirTemp("", "govc-inc-")
			exe, _ := os.Executable()
			cmd := exec.Command(exe, "check", inc, "--tier", "quick", "--repo", *repo, "--as-included", "-j", strconv.Itoa(*par))
			cmd.Env = append(os.Environ(), "VERIF_OUT="+scratch, "VERIF_ROOT="+root, "VERIF_TIER=quick")
			out, _ := cmd.CombinedOutput()
			code := 0
			if cmd.ProcessState != nil {
				code = cmd.ProcessState.ExitCode()
			}
			rec := map[string]interface{}{"property": inc, "exit": code}
			var iev struct {
				Coverage struct {
					Obligations int                 `json:"obligations"`
					Discharged  int                 `json:"discharged"`
					SolverTime  float64             `json:"solver_time_s"`
					Funcs       []string            `json:"functions_under_contract"`
					ByBackend   map[string]int      `json:"discharged_by_backend"`
				} `json:"coverage"`
			}
			if data, err := os.ReadFile(filepath.Join(scratch, "evidence", inc+".json")); err == nil && json.Unmarshal(data, &iev) == nil {
				rec["obligations"] = iev.Coverage.Obligations
				rec["discharged"] = iev.Coverage.Discharged
				rec["solver_time_s"] = iev.Coverage.SolverTime
				rec["functions_under_contract"] = iev.Coverage.Funcs
				rec["discharged_by_backend"] = iev.Coverage.ByBackend
			}
			var lines []string
			for _, l := range strings.Split(string(out), "\n") {
				if strings.HasPrefix(l, "VIOLATION") || strings.HasPrefix(l, "FAILED") || strings.HasPrefix(l, "UNDECIDED") || strings.HasPrefix(l, "FAILING-INPUT") {
					lines = append(lines, l)
				}
			}
			rec["report"] = lines
			included = append(included, rec)
			if code == 1 {
				violations++
				exit = 1
				found := false
				for _, l := range lines {
					if strings.HasPrefix(l, "VIOLATION") && !strings.HasSuffix(strings.TrimSpace(l), "no-failing-input-found") {
						found = true
					}
				}
				p := writeReplay("included_"+inc, map[string]interface{}{"property": id, "obligation": "included:" + inc, "failing_input_found": found,
					"explanation": "this property's argument uses the contracts proved under " + inc + "; that check fails on this tree", "included_check_output": tail(string(out), 8000)})
				if found {
					fmt.Printf("VIOLATION property=%s replay=%s\n", id, p)
				} else {
					fmt.Printf("VIOLATION property=%s replay=%s no-failing-input-found\n", id, p)
				}
			} else if code != 0 {
				fmt.Printf("UNDECIDED reason=included-check-error %s exit=%d\n", inc, code)
				undecided++
			}
			os.RemoveAll(scratch)
		}
	}
	// evidence
	level := claims.Level
	if undecided > 0 && level == "proof" {
		level = "other"
	}
	discharged := len(ds) - len(failed)
	var samples []interface{}
	for i, d := range ds {
		if i%(len(ds)/4+1) == 0 {
			samples = append(samples, map[string]string{"obligation": d.O.Name, "goal": trunc(d.O.Goal, 300), "status": d.R.Status, "solver": d.R.Solver, "pos": d.O.Pos})
		}
	}
	var unclNames []string
	for _, o := range unclaimed {
		unclNames = append(unclNames, o.Name)
	}
	var unclStatus []oblEvidence
	for _, d := range unclDs {
		unclStatus = append(unclStatus, oblEvidence{Name: d.O.Name, Kind: d.O.Kind, Pos: d.O.Pos, Status: d.R.Status, Solver: d.R.Solver, TimeS: round3(d.R.TimeS), Goal: trunc(d.O.Goal, 120)})
	}
	assumptions := append([]string(nil), claims.Assumptions...)
	assumptions = append(assumptions, ctx.spec.Assumed...)
	for _, ax := range ctx.spec.Axioms {
		assumptions = append(assumptions, "axiom "+ax.Name+": "+trunc(ax.Text, 160))
	}
	for _, k := range sortedContractKeys(ctx.spec.Contracts) {
		c := ctx.spec.Contracts[k]
		if c.Trusted && c.Used {
			assumptions = append(assumptions, "assumed contract (not verified): "+k)
		}
	}
	for _, u := range uncontr {
		assumptions = append(assumptions, "uncontracted callee (whole heap havocked, result unconstrained): "+u)
	}
	for _, k := range claims.Funcs {
		if c := ctx.spec.Contracts[k]; c != nil {
			for _, cl := range append(append([]*Clause(nil), c.Requires...), c.Ensures...) {
				if cl.Free {
					assumptions = append(assumptions, "free (assumed, unchecked) clause in "+k+": "+trunc(cl.Text, 100))
				}
			}
		}
	}
	cov := map[string]interface{}{
		"obligations": len(ds), "discharged": discharged,
		"checker_cmd":  fmt.Sprintf("bin/check %s --tier %s", id, *tier),
		"trusted_base": []string{"govc VC generator (symbolic semantics of the Go subset, DESIGN.md §2.3)", "z3 5.1.0 / z3 4.8.12 / cvc5 1.0.3", "go/types, go/packages (x/tools v0.29.0)"},
		"functions_under_contract": claims.Funcs, "lemmas": claims.Lemmas,
		"discharged_by_backend": bySolver, "solver_time_s": round3(solverTime),
		"per_obligation": evid, "samples": samples,
		"unclaimed_generated": unclNames, "unclaimed_status": unclStatus,
		"not_generated": missing, "function_errors": funcErrs,
		"known_findings_reported": knownLines,
		"int_model":               "Go int is mathematical Int; int32 and uint8 wrap (machine arithmetic)",
		"dropped_by_translation":  "hclog logger calls (arguments still evaluated); termination only where a decreases clause is given; append modelled as reallocation",
	}
	if len(included) > 0 {
		cov["included_checks"] = included
	}
	if harnessRan {
		cov["bounded_harness"] = map[string]interface{}{"name": claims.Harness, "ok": harnessOK, "wall_s": round3(harnessT), "labelled": "bounded", "stand_ins": claims.Bounded, "output_tail": tail(harnessOut, 1500)}
	}
	if level != "proof" {
		cov["explanation"] = "proof obligations discharged where listed; parts labelled bounded are exhaustive/concrete checks of the real code up to the stated bound. " + strings.Join(claims.Notes, " ")
	}
	ev := map[string]interface{}{
		"property_id": id, "tier": *tier, "seed": seed, "level": level, "coverage": cov, "assumptions": assumptions,
		"wall_s": round3(time.Since(start).Seconds()), "violations": violations,
	}
	os.MkdirAll(filepath.Join(outRoot, "evidence"), 0o755)
	data, _ := json.MarshalIndent(ev, "", " ")
	os.WriteFile(filepath.Join(outRoot, "evidence", id+".json"), data, 0o644)
	fmt.Printf("%s tier=%s obligations=%d discharged=%d failed=%d known=%d undecided=%d unclaimed=%d included=%d wall=%.1fs\n", id, *tier, len(ds), discharged, len(failed), len(knownLines), undecided, len(unclaimed), len(included), time.Since(start).Seconds())
	return exit
}

func sortedContractKeys(m map[string]*Contract) []string {
	ks := make([]string, 0, len(m))
	for k := range m {
		ks = append(ks, k)
	}
	sort.Strings(ks)
	return ks
}

func round3(f float64) float64 { return float64(int(f*1000+0.5)) / 1000 }

var failingRunRe = regexp.MustCompile(` \(run [0-9]+\)`)

// normFailing normalises a FAILING-INPUT line of a harness: the text from
// FAILING-INPUT on, without the repetition counter.
func normFailing(l string) string {
	if i := strings.Index(l, "FAILING-INPUT"); i >= 0 {
		l = l[i:]
	}
	return strings.TrimSpace(failingRunRe.ReplaceAllString(l, ""))
}

func tail(s string, n int) string {
	if len(s) > n {
		return "…" + s[len(s)-n:]
	}
	return s
}

func doReplay(root, repo string, claims *Claims, path, tier string, seed int) int {
	data, err := os.ReadFile(path)
	if err != nil {
		fmt.Fprintln(os.Stderr, err)
		return 2
	}
	var payload map[string]interface{}
	json.Unmarshal(data, &payload)
	h, _ := payload["harness"].(string)
	if h == "" {
		h = claims.Harness
	}
	if h == "" {
		fmt.Println("replay file carries no harness; obligation:", payload["obligation"])
		fmt.Println(payload["solver_output"])
		return 1
	}
	pkg, _ := payload["harness_pkg"].(string)
	run, _ := payload["harness_run"].(string)
	ok, out, _ := runHarness(repo, filepath.Join(root, "replay", h), pkg, run, tier, seed, nil)
	fmt.Print(tail(out, 4000))
	if !ok {
		fmt.Printf("VIOLATION property=%s replay=%s\n", claims.ID, path)
		return 1
	}
	fmt.Println("replay: harness passes on this tree; obligation was:", payload["obligation"])
	return 0
}

// rewriteClaims regenerates the "claim" lines: every generated obligation
// that is discharged now. Development-time only; the file is committed.
func rewriteClaims(root, id string, claims *Claims, ctx *Ctx, obls []*Obligation, timeout, par int) int {
	noRetry = true
	ds := dischargeAll(ctx, obls, timeout, par, "")
	path := filepath.Join(root, "claims", id+".txt")
	data, _ := os.ReadFile(path)
	var keep []string
	for _, ln := range strings.Split(string(data), "\n") {
		t := strings.TrimSpace(ln)
		if strings.HasPrefix(t, "claim ") || strings.HasPrefix(t, "# not claimed") {
			continue
		}
		keep = append(keep, ln)
	}
	for len(keep) > 0 && strings.TrimSpace(keep[len(keep)-1]) == "" {
		keep = keep[:len(keep)-1]
	}
	var b strings.Builder
	b.WriteString(strings.Join(keep, "\n") + "\n")
	n := 0
	for _, d := range ds {
		if len(claims.OnlyKinds) > 0 {
			keep := false
			for _, k := range claims.OnlyKinds {
				if strings.HasPrefix(d.O.Kind, k) {
					keep = true
				}
			}
			if !keep {
				continue
			}
		}
		if d.OK() && (d.R.TimeS < 3 || d.O.Expect == "sat") {
			fmt.Fprintf(&b, "claim %s\n", d.O.Name)
			n++
		} else {
			fmt.Fprintf(&b, "# not claimed (%s %.1fs): %s\n", d.R.Status, d.R.TimeS, d.O.Name)
			fmt.Printf("not claimed (%s %.1fs): %s :: %s\n", d.R.Status, d.R.TimeS, d.O.Name, trunc(d.O.Goal, 120))
		}
	}
	os.WriteFile(path, []byte(b.String()), 0o644)
	fmt.Printf("wrote %d claims to %s\n", n, path)
	return 0
}

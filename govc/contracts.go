package main

// contracts.go — parsing of the //@ contract files (comment-only, build tag verif).

import (
	"fmt"
	"go/ast"
	"go/parser"
	"os"
	"regexp"
	"strconv"
	"strings"
)

type Clause struct {
	Kind  string // requires, ensures, invariant, decreases, assigns, ...
	Label string // optional [label]
	Using []string // optional [label using tag, tag, ...]: proof hint, the assumptions to try first
	Text  string
	Expr  ast.Expr
	Loop  int // for loop clauses
	Line  int
	File  string
	Free  bool // "free" clauses are assumed, never checked (listed as assumptions)
}

type Contract struct {
	Key        string // e.g. "graph.(*Graph).Add" or "graph.(*Graph).dfs$1"
	Requires   []*Clause
	Ensures    []*Clause
	Assigns    []string // raw designators; nil means unspecified
	HasAssigns bool
	Modifies    []*Clause // object-level frame: expressions (evaluated in the pre-state) denoting the only pre-existing objects that may be written
	HasModifies bool
	LoopInv    map[int][]*Clause
	LoopDec    map[int]*Clause
	LoopMod    map[int][]string
	Decreases  *Clause
	Trusted    bool // body not verified (external / assumed contract)
	QuietFrame bool // modifies clause is checked and propagated, but no automatic frame facts are assumed at call sites (the contract states its frame explicitly)
	SplitPaths bool // top-level if statements are followed path by path instead of merged
	KindHints  []KindHint // hint <regexp on kind/label> using tags: proof hints for generated obligations (call-requires, frame-call, panic/...)
	Dispatch   map[string]string // func-valued variable -> literal key: calls through it are calls of that closure (its code is checked at the call)
	TailSplit  bool // a top-level if followed only by the final return is not merged: the postconditions are checked per branch
	Pure       bool
	Params     []GhostParam // for trusted externals declared with a signature
	Results    []GhostParam
	Ghosts     []*Clause // "ghost var" declarations local to function
	After      []*AfterClause
	Used       bool
	Line       int
	File       string
}

// AfterClause: ghost assignment executed right after the first statement whose
// source text starts with Match:   after "stmt prefix" set gv = expr
type KindHint struct {
	Re    *regexp.Regexp
	Using []string
}

type AfterClause struct {
	Match  string
	Before bool
	Assert bool // ghost assertion (proved, then assumed) instead of an assignment
	Label  string
	Using  []string
	Var    string
	Expr  ast.Expr
	Text  string
	Line  int
	Used  bool
}

type GhostParam struct {
	Name string
	Type string
}

type GhostFunc struct {
	Name    string
	Params  []GhostParam
	Result  string
	Body    ast.Expr // nil for uninterpreted
	Text    string
	Line    int
	File    string
	PkgPath string
	NamedX  bool // xpred: like pred, but only in obligations of other packages
	Named   bool // pred: translated to an applied function symbol with a defining axiom instead of being inlined
}

type Lemma struct {
	Name string
	Text string
	Expr ast.Expr
	Line int
	File string
	Pkg  string
}

type SpecFile struct {
	Contracts map[string]*Contract
	Ghosts    map[string]*GhostFunc
	Lemmas    []*Lemma
	Axioms    []*Lemma
	Opaque    map[string]string
	SortAlias map[string]string
	SortAliasPkg map[string]string
	Assumed   []string // free-text list of assumptions stated in the file
	Immutable     []string
	ImmutablePkg  []string
	Closed        []string
	GhostFields   []GhostParam
	GhostFieldPkg []string
	GhostVars   []GhostParam
	GhostVarPkg []string
}

var clauseKw = map[string]bool{
	"func": true, "requires": true, "ensures": true, "assigns": true, "modifies": true, "loop": true, "decreases": true,
	"ghost": true, "after": true, "before": true, "uf": true, "lemma": true, "axiom": true, "trusted": true, "pure": true, "split-paths": true, "tail-split": true, "dispatch": true, "hint": true, "quietframe": true, "opaque": true, "pred": true, "xpred": true,
	"sort": true, "closedtype": true, "immutable": true, "ghostvar": true, "ghostfield": true, "free": true, "extern": true, "assume-note": true, "end": true,
}

var labelRe = regexp.MustCompile(`^\[([A-Za-z0-9_.\-]+)(?:\s+using\s+([^\]]+))?\]\s*`)

func splitUsing(s string) []string {
	var out []string
	for _, f := range strings.Split(s, ",") {
		if f = strings.TrimSpace(f); f != "" {
			out = append(out, f)
		}
	}
	return out
}

func parseSpecExpr(text, file string, line int) (ast.Expr, error) {
	e, err := parser.ParseExpr(text)
	if err != nil {
		return nil, fmt.Errorf("%s:%d: spec parse error: %v in %q", file, line, err, text)
	}
	return e, nil
}

// ParseSpecFile reads all //@ lines from a file and groups them into clauses.
func ParseSpecFile(path, pkgName, pkgPath string, sf *SpecFile) error {
	data, err := os.ReadFile(path)
	if err != nil {
		return err
	}
	type raw struct {
		text string
		line int
	}
	var clauses []raw
	for i, ln := range strings.Split(string(data), "\n") {
		t := strings.TrimSpace(ln)
		if !strings.HasPrefix(t, "//@") || strings.HasPrefix(t, "//@@") {
			continue
		}
		body := strings.TrimPrefix(t, "//@")
		tb := strings.TrimSpace(body)
		if tb == "" {
			continue
		}
		if strings.HasPrefix(tb, "#") { // comment inside spec
			continue
		}
		first := strings.Fields(tb)[0]
		if clauseKw[first] {
			clauses = append(clauses, raw{tb, i + 1})
		} else if len(clauses) > 0 {
			clauses[len(clauses)-1].text += " " + tb
		} else {
			return fmt.Errorf("%s:%d: continuation without clause", path, i+1)
		}
	}
	var cur *Contract
	for _, rc := range clauses {
		fields := strings.Fields(rc.text)
		kw := fields[0]
		rest := strings.TrimSpace(strings.TrimPrefix(rc.text, kw))
		free := false
		if kw == "free" {
			free = true
			kw = strings.Fields(rest)[0]
			rest = strings.TrimSpace(strings.TrimPrefix(rest, kw))
		}
		mk := func(kind, text string) (*Clause, error) {
			c := &Clause{Kind: kind, Line: rc.line, File: path, Free: free}
			if m := labelRe.FindStringSubmatch(text); m != nil {
				c.Label = m[1]
				c.Using = splitUsing(m[2])
				text = text[len(m[0]):]
			}
			c.Text = text
			e, err := parseSpecExpr(text, path, rc.line)
			if err != nil {
				return nil, err
			}
			c.Expr = e
			return c, nil
		}
		switch kw {
		case "func", "extern":
			key := rest
			var params, results []GhostParam
			if kw == "extern" {
				// extern name(p T, q U) (r V)
				idx := strings.Index(rest, "(")
				// key may itself contain parens for methods: use " :: " separator
				parts := strings.SplitN(rest, "::", 2)
				if len(parts) == 2 {
					key = strings.TrimSpace(parts[0])
					sig := strings.TrimSpace(parts[1])
					ps, rs, err := parseSig(sig)
					if err != nil {
						return fmt.Errorf("%s:%d: %v", path, rc.line, err)
					}
					params, results = ps, rs
				} else {
					_ = idx
				}
			}
			if !strings.Contains(key, ".") || strings.HasPrefix(key, "(") {
				key = pkgName + "." + key
			}
			cur = &Contract{Key: key, LoopInv: map[int][]*Clause{}, LoopDec: map[int]*Clause{}, LoopMod: map[int][]string{}, Line: rc.line, File: path}
			if kw == "extern" {
				cur.Trusted = true
				cur.Params, cur.Results = params, results
			}
			if _, dup := sf.Contracts[key]; dup {
				return fmt.Errorf("%s:%d: duplicate contract %s", path, rc.line, key)
			}
			sf.Contracts[key] = cur
		case "end":
			cur = nil
		case "requires", "ensures":
			if cur == nil {
				return fmt.Errorf("%s:%d: %s outside func", path, rc.line, kw)
			}
			c, err := mk(kw, rest)
			if err != nil {
				return err
			}
			if kw == "requires" {
				cur.Requires = append(cur.Requires, c)
			} else {
				cur.Ensures = append(cur.Ensures, c)
			}
		case "assigns":
			if cur == nil {
				return fmt.Errorf("%s:%d: assigns outside func", path, rc.line)
			}
			cur.HasAssigns = true
			for _, d := range strings.Split(rest, ",") {
				d = strings.TrimSpace(d)
				if d != "" && d != "nothing" {
					cur.Assigns = append(cur.Assigns, d)
				}
			}
		case "modifies":
			if cur == nil {
				return fmt.Errorf("%s:%d: modifies outside func", path, rc.line)
			}
			cur.HasModifies = true
			for _, d := range splitTopLevel(rest, ',') {
				d = strings.TrimSpace(d)
				if d == "" || d == "nothing" {
					continue
				}
				e, err := parseSpecExpr(d, path, rc.line)
				if err != nil {
					return err
				}
				cur.Modifies = append(cur.Modifies, &Clause{Kind: "modifies", Text: d, Expr: e, Line: rc.line, File: path})
			}
		case "quietframe":
			if cur != nil {
				cur.QuietFrame = true
			}
		case "split-paths":
			if cur != nil {
				cur.SplitPaths = true
			}
		case "tail-split":
			if cur != nil {
				cur.TailSplit = true
			}
		case "hint":
			// hint <regexp> using a, b, c
			idx := strings.Index(rest, " using ")
			if cur == nil || idx < 0 {
				return fmt.Errorf("%s:%d: hint <regexp> using tags", path, rc.line)
			}
			re, err := regexp.Compile(strings.TrimSpace(rest[:idx]))
			if err != nil {
				return fmt.Errorf("%s:%d: hint: %v", path, rc.line, err)
			}
			cur.KindHints = append(cur.KindHints, KindHint{Re: re, Using: splitUsing(rest[idx+7:])})
		case "dispatch":
			// dispatch <var> "<literal key>"
			f2 := strings.Fields(rest)
			if cur == nil || len(f2) != 2 {
				return fmt.Errorf("%s:%d: dispatch <var> \"<literal key>\"", path, rc.line)
			}
			lk, err := strconv.Unquote(f2[1])
			if err != nil {
				return fmt.Errorf("%s:%d: dispatch: %v", path, rc.line, err)
			}
			if cur.Dispatch == nil {
				cur.Dispatch = map[string]string{}
			}
			cur.Dispatch[f2[0]] = lk
		case "trusted":
			if cur != nil {
				cur.Trusted = true
			}
		case "pure":
			if cur != nil {
				cur.Pure = true
				cur.HasAssigns = true
			}
		case "decreases":
			if cur == nil {
				return fmt.Errorf("%s:%d: decreases outside func", path, rc.line)
			}
			c, err := mk("decreases", rest)
			if err != nil {
				return err
			}
			cur.Decreases = c
		case "loop":
			if cur == nil || len(fields) < 3 {
				return fmt.Errorf("%s:%d: bad loop clause", path, rc.line)
			}
			f2 := strings.Fields(rest)
			n, err := strconv.Atoi(f2[0])
			if f2[0] == "*" {
				n, err = 0, nil // loop * invariant: holds at the head of every loop of the function
			}
			if err != nil {
				return fmt.Errorf("%s:%d: bad loop ordinal", path, rc.line)
			}
			sub := f2[1]
			text := strings.TrimSpace(strings.TrimPrefix(strings.TrimSpace(strings.TrimPrefix(rest, f2[0])), sub))
			switch sub {
			case "invariant":
				c, err := mk("invariant", text)
				if err != nil {
					return err
				}
				c.Loop = n
				cur.LoopInv[n] = append(cur.LoopInv[n], c)
			case "decreases":
				c, err := mk("decreases", text)
				if err != nil {
					return err
				}
				c.Loop = n
				cur.LoopDec[n] = c
			case "free":
				text2 := strings.TrimSpace(strings.TrimPrefix(text, "invariant"))
				free = true
				c, err := mk("invariant", text2)
				if err != nil {
					return err
				}
				c.Loop = n
				c.Free = true
				cur.LoopInv[n] = append(cur.LoopInv[n], c)
			default:
				return fmt.Errorf("%s:%d: unknown loop clause %q", path, rc.line, sub)
			}
		case "ghost", "uf", "pred", "xpred":
			// ghost name(p T, q U) R = expr     |   uf name(p T) R   |   pred name(p T) R = expr
			gf, err := parseGhost(rest, kw == "uf", path, rc.line)
			if err != nil {
				return err
			}
			gf.PkgPath = pkgPath
			gf.Named = kw == "pred"
			gf.NamedX = kw == "xpred"
			if _, dup := sf.Ghosts[gf.Name]; dup {
				return fmt.Errorf("%s:%d: duplicate ghost %s", path, rc.line, gf.Name)
			}
			sf.Ghosts[gf.Name] = gf
		case "lemma", "axiom":
			idx := strings.Index(rest, ":")
			if idx < 0 {
				return fmt.Errorf("%s:%d: lemma needs name: formula", path, rc.line)
			}
			name := strings.TrimSpace(rest[:idx])
			text := strings.TrimSpace(rest[idx+1:])
			e, err := parseSpecExpr(text, path, rc.line)
			if err != nil {
				return err
			}
			l := &Lemma{Name: name, Text: text, Expr: e, Line: rc.line, File: path, Pkg: pkgPath}
			if kw == "lemma" {
				sf.Lemmas = append(sf.Lemmas, l)
			} else {
				sf.Axioms = append(sf.Axioms, l)
			}
		case "opaque":
			// opaque pkgpath.Name SortName
			if len(fields) == 3 {
				sf.Opaque[fields[1]] = fields[2]
			}
		case "after", "before":
			if cur == nil {
				return fmt.Errorf("%s:%d: after outside func", path, rc.line)
			}
			// after "prefix" set name = expr
			q1 := strings.Index(rest, "\"")
			q2 := strings.Index(rest[q1+1:], "\"")
			if q1 < 0 || q2 < 0 {
				return fmt.Errorf("%s:%d: after needs a quoted statement prefix", path, rc.line)
			}
			match := rest[q1+1 : q1+1+q2]
			tail := strings.TrimSpace(rest[q1+q2+2:])
			if strings.HasPrefix(tail, "assert") {
				text := strings.TrimSpace(strings.TrimPrefix(tail, "assert"))
				lbl := ""
				var using []string
				if m := labelRe.FindStringSubmatch(text); m != nil {
					lbl = m[1]
					using = splitUsing(m[2])
					text = text[len(m[0]):]
				}
				e, err := parseSpecExpr(text, path, rc.line)
				if err != nil {
					return err
				}
				cur.After = append(cur.After, &AfterClause{Match: match, Before: kw == "before", Assert: true, Label: lbl, Using: using, Expr: e, Text: text, Line: rc.line})
				break
			}
			tail = strings.TrimSpace(strings.TrimPrefix(tail, "set"))
			eqi := strings.Index(tail, "=")
			if eqi < 0 {
				return fmt.Errorf("%s:%d: after ... set var = expr", path, rc.line)
			}
			e, err := parseSpecExpr(strings.TrimSpace(tail[eqi+1:]), path, rc.line)
			if err != nil {
				return err
			}
			cur.After = append(cur.After, &AfterClause{Match: match, Before: kw == "before", Var: strings.TrimSpace(tail[:eqi]), Expr: e, Text: tail, Line: rc.line})
		case "immutable":
			// immutable Struct.field, ... : fields written only when the object is created (modelled as functions of the reference)
			for _, d := range strings.Split(rest, ",") {
				if d = strings.TrimSpace(d); d != "" {
					sf.Immutable = append(sf.Immutable, d)
					sf.ImmutablePkg = append(sf.ImmutablePkg, pkgPath)
				}
			}
		case "closedtype":
			// closedtype pkg.Type : every non-nil value of this func type is a closure of a literal in the loaded packages
			sf.Closed = append(sf.Closed, strings.TrimSpace(rest))
		case "ghostfield":
			// ghostfield Struct.name Type
			f2 := strings.Fields(rest)
			if len(f2) >= 2 {
				sf.GhostFields = append(sf.GhostFields, GhostParam{Name: f2[0], Type: strings.TrimSpace(strings.TrimPrefix(rest, f2[0]))})
				sf.GhostFieldPkg = append(sf.GhostFieldPkg, pkgPath)
			}
		case "ghostvar":
			// ghostvar name Type   — a global ghost variable (a heap component of its own)
			f2 := strings.Fields(rest)
			if len(f2) >= 2 {
				sf.GhostVars = append(sf.GhostVars, GhostParam{Name: f2[0], Type: strings.TrimSpace(strings.TrimPrefix(rest, f2[0]))})
				sf.GhostVarPkg = append(sf.GhostVarPkg, pkgPath)
			}
		case "sort":
			// sort Alias = GoType
			parts := strings.SplitN(rest, "=", 2)
			if len(parts) == 2 {
				sf.SortAlias[strings.TrimSpace(parts[0])] = strings.TrimSpace(parts[1])
				sf.SortAliasPkg[strings.TrimSpace(parts[0])] = pkgPath
			}
		case "assume-note":
			sf.Assumed = append(sf.Assumed, rest)
		}
	}
	return nil
}

func splitTopLevel(s string, sep byte) []string {
	var out []string
	depth := 0
	start := 0
	for i := 0; i < len(s); i++ {
		switch s[i] {
		case '(', '[', '{':
			depth++
		case ')', ']', '}':
			depth--
		default:
			if s[i] == sep && depth == 0 {
				out = append(out, s[start:i])
				start = i + 1
			}
		}
	}
	out = append(out, s[start:])
	return out
}

func parseParams(s string) ([]GhostParam, error) {
	s = strings.TrimSpace(s)
	if s == "" {
		return nil, nil
	}
	var ps []GhostParam
	for _, p := range splitTopLevel(s, ',') {
		p = strings.TrimSpace(p)
		idx := strings.IndexAny(p, " \t")
		if idx < 0 {
			return nil, fmt.Errorf("bad param %q", p)
		}
		ps = append(ps, GhostParam{Name: p[:idx], Type: strings.TrimSpace(p[idx:])})
	}
	return ps, nil
}

func matchParen(s string, open int) int {
	depth := 0
	for i := open; i < len(s); i++ {
		switch s[i] {
		case '(':
			depth++
		case ')':
			depth--
			if depth == 0 {
				return i
			}
		}
	}
	return -1
}

func parseSig(sig string) (ps, rs []GhostParam, err error) {
	sig = strings.TrimSpace(sig)
	if !strings.HasPrefix(sig, "(") {
		return nil, nil, fmt.Errorf("bad signature %q", sig)
	}
	cl := matchParen(sig, 0)
	if cl < 0 {
		return nil, nil, fmt.Errorf("bad signature %q", sig)
	}
	ps, err = parseParams(sig[1:cl])
	if err != nil {
		return
	}
	rest := strings.TrimSpace(sig[cl+1:])
	if rest == "" {
		return
	}
	if strings.HasPrefix(rest, "(") {
		c2 := matchParen(rest, 0)
		rs, err = parseParams(rest[1:c2])
		return
	}
	rs = []GhostParam{{Name: "result", Type: rest}}
	return
}

func parseGhost(rest string, uninterp bool, file string, line int) (*GhostFunc, error) {
	op := strings.Index(rest, "(")
	if op < 0 {
		return nil, fmt.Errorf("%s:%d: bad ghost decl", file, line)
	}
	cl := matchParen(rest, op)
	if cl < 0 {
		return nil, fmt.Errorf("%s:%d: bad ghost decl", file, line)
	}
	gf := &GhostFunc{Name: strings.TrimSpace(rest[:op]), Line: line, File: file}
	ps, err := parseParams(rest[op+1 : cl])
	if err != nil {
		return nil, fmt.Errorf("%s:%d: %v", file, line, err)
	}
	gf.Params = ps
	tail := strings.TrimSpace(rest[cl+1:])
	if uninterp {
		gf.Result = tail
		return gf, nil
	}
	eq := strings.Index(tail, "=")
	if eq < 0 {
		return nil, fmt.Errorf("%s:%d: ghost needs '= body'", file, line)
	}
	gf.Result = strings.TrimSpace(tail[:eq])
	gf.Text = strings.TrimSpace(tail[eq+1:])
	e, err := parseSpecExpr(gf.Text, file, line)
	if err != nil {
		return nil, err
	}
	gf.Body = e
	return gf, nil
}

func NewSpecFile() *SpecFile {
	return &SpecFile{Contracts: map[string]*Contract{}, Ghosts: map[string]*GhostFunc{}, Opaque: map[string]string{}, SortAlias: map[string]string{}, SortAliasPkg: map[string]string{}}
}

package main

// lemma.go — stand-alone lemmas (//@ lemma name: formula): formulas over the
// specification vocabulary only, discharged without any program state.

import (
	"fmt"
	"go/token"
	"strings"
	"go/types"
)

func (c *Ctx) LemmaObligations(names []string) []*Obligation {
	var out []*Obligation
	for _, n := range names {
		var lem *Lemma
		for _, l := range c.spec.Lemmas {
			if l.Name == n {
				lem = l
			}
		}
		if lem == nil {
			continue
		}
		var pkgInfo = c.pkgs[0]
		for _, p := range c.pkgs {
			if p.PkgPath == lem.Pkg {
				pkgInfo = p
			}
		}
		fi := &FuncInfo{Key: "lemma:" + lem.Name, Pkg: pkgInfo}
		fx := &FuncExec{ctx: c, reg: c.reg, pkg: pkgInfo, info: pkgInfo.TypesInfo, fi: fi,
			varSort: map[string]string{}, varType: map[string]types.Type{}, counters: map[string]int{}, boxed: map[*types.Var]bool{}, addrTaken: map[*types.Var]bool{},
			captured: map[*types.Var]bool{}, used: map[string]bool{}, uncontr: map[string]bool{}, writes: map[string]bool{}, ghostVar: map[string]string{}}
		st := NewState()
		old := NewState()
		func() {
			defer func() {
				if r := recover(); r != nil {
					if _, ok := r.(specError); !ok {
						panic(r)
					}
				}
			}()
			// axioms of the same spec may be used as hypotheses
			env := &SpecEnv{fx: fx, cur: st, old: old, bound: map[string]Term{}, pkg: c.pkgByPath(lem.Pkg), where: "lemma " + lem.Name}
			for _, ax := range c.spec.Axioms {
				if ax.Pkg == lem.Pkg {
					st.assume(env.Bool(ax.Expr))
				}
			}
			g := env.Bool(lem.Expr)
			o := &Obligation{Name: "lemma:" + lem.Name, Func: fi.Key, Kind: "lemma", Pos: lem.File, Goal: lem.Text, PC: append([]string(nil), st.pc...), Neg: g, Expect: "unsat", fx: fx}
			out = append(out, o)
		}()
	}
	return out
}

var _ = token.NoPos

// InstallAxioms translates every //@ axiom (a closed formula over the
// specification vocabulary: assumed facts about trusted APIs) into a global
// SMT axiom. Axioms are listed as assumptions in every evidence file.
func (c *Ctx) InstallAxioms() error {
	// ghost fields become heap components of their struct
	for i, gf := range c.spec.GhostFields {
		fi := &FuncInfo{Key: "ghostfield:" + gf.Name, Pkg: c.pkgs[0]}
		fx := &FuncExec{ctx: c, reg: c.reg, pkg: c.pkgs[0], fi: fi}
		dot := strings.Index(gf.Name, ".")
		if dot < 0 {
			return fmt.Errorf("ghostfield %s: want Struct.field", gf.Name)
		}
		var err error
		func() {
			defer func() {
				if r := recover(); r != nil {
					err = fmt.Errorf("ghostfield %s: %v", gf.Name, r)
				}
			}()
			gpkg := c.pkgByPath(c.spec.GhostFieldPkg[i])
			ssort, _ := fx.typeFromString("*"+gf.Name[:dot], gpkg)
			si := c.reg.structs[ssort]
			if si == nil {
				panic("not a struct")
			}
			fsort, ft := fx.typeFromString(gf.Type, gpkg)
			f := gf.Name[dot+1:]
			comp := "F_" + sanitize(si.Name) + "_" + f
			si.Comp[f] = comp
			si.FieldT[f] = ft
			si.GhostF = append(si.GhostF, f)
			c.reg.addComp(comp, fmt.Sprintf("(Array %s %s)", ssort, fsort))
			if ft == nil {
				si.GhostSort = map[string]string{f: fsort}
			}
		}()
		if err != nil {
			return err
		}
	}
	// immutable fields
	for i, d := range c.spec.Immutable {
		fi := &FuncInfo{Key: "immutable:" + d, Pkg: c.pkgs[0]}
		fx := &FuncExec{ctx: c, reg: c.reg, pkg: c.pkgs[0], fi: fi}
		var err error
		func() {
			defer func() {
				if r := recover(); r != nil {
					err = fmt.Errorf("immutable %s: %v", d, r)
				}
			}()
			for _, comp := range fx.compsOf(d, c.pkgByPath(c.spec.ImmutablePkg[i])) {
				c.reg.imm[comp] = true
				ks, vs := arraySorts(c.reg.compSort[comp])
				c.reg.declFun("imm_"+comp, fmt.Sprintf("(declare-fun imm_%s (%s) %s)", comp, ks, vs))
			}
		}()
		if err != nil {
			return err
		}
	}
	// global ghost variables become heap components GV_<name>
	for i, gv := range c.spec.GhostVars {
		fi := &FuncInfo{Key: "ghostvar:" + gv.Name, Pkg: c.pkgs[0]}
		fx := &FuncExec{ctx: c, reg: c.reg, pkg: c.pkgs[0], fi: fi}
		var srt string
		var err error
		func() {
			defer func() {
				if r := recover(); r != nil {
					err = fmt.Errorf("ghostvar %s: %v", gv.Name, r)
				}
			}()
			srt, _ = fx.typeFromString(gv.Type, c.pkgByPath(c.spec.GhostVarPkg[i]))
		}()
		if err != nil {
			return err
		}
		c.reg.addComp("GV_"+gv.Name, srt)
		c.reg.ghostVars[gv.Name] = "GV_" + gv.Name
	}
	for _, ax := range c.spec.Axioms {
		var pkgInfo = c.pkgs[0]
		for _, p := range c.pkgs {
			if p.PkgPath == ax.Pkg {
				pkgInfo = p
			}
		}
		fi := &FuncInfo{Key: "axiom:" + ax.Name, Pkg: pkgInfo}
		fx := &FuncExec{ctx: c, reg: c.reg, pkg: pkgInfo, info: pkgInfo.TypesInfo, fi: fi,
			varSort: map[string]string{}, varType: map[string]types.Type{}, counters: map[string]int{}, boxed: map[*types.Var]bool{}, addrTaken: map[*types.Var]bool{},
			captured: map[*types.Var]bool{}, used: map[string]bool{}, uncontr: map[string]bool{}, writes: map[string]bool{}, ghostVar: map[string]string{}}
		var err error
		func() {
			defer func() {
				if r := recover(); r != nil {
					if se, ok := r.(specError); ok {
						err = fmt.Errorf("axiom %s: %s", ax.Name, se.msg)
						return
					}
					panic(r)
				}
			}()
			st := NewState()
			env := &SpecEnv{fx: fx, cur: st, old: st, bound: map[string]Term{}, pkg: c.pkgByPath(ax.Pkg), where: "axiom " + ax.Name}
			g := env.Bool(ax.Expr)
			if len(fx.decls) > 0 {
				err = fmt.Errorf("axiom %s depends on program state", ax.Name)
				return
			}
			g = withQid(g, "ax-"+ax.Name)
			text := "(assert " + g + ") ; axiom " + ax.Name
			c.reg.axioms = append(c.reg.axioms, text)
			c.reg.axiomPkg[text] = ax.Pkg
		}()
		if err != nil {
			return err
		}
	}
	return nil
}


// withQid names the outermost quantifier of a formula (for solver profiles).
func withQid(g, name string) string {
	if !strings.HasPrefix(g, "(forall (") {
		return g
	}
	// find the end of the binder list
	depth := 0
	i := len("(forall ")
	for ; i < len(g); i++ {
		if g[i] == '(' {
			depth++
		} else if g[i] == ')' {
			depth--
			if depth == 0 {
				i++
				break
			}
		}
	}
	body := strings.TrimSpace(g[i : len(g)-1])
	name = strings.Map(func(r rune) rune {
		if r == '|' || r == '\\' {
			return '_'
		}
		return r
	}, name)
	if strings.HasPrefix(body, "(! ") && strings.HasSuffix(body, ")") {
		return g[:i] + " " + body[:len(body)-1] + " :qid |" + name + "|))"
	}
	return g[:i] + " (! " + body + " :qid |" + name + "|))"
}

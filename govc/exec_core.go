package main

// exec_core.go — per-function verification-condition generation: entry
// state, obligations, heap primitives, contract application.

import (
	"regexp"
	"fmt"
	"os"
	"sync"
	"go/ast"
	"go/constant"
	"go/token"
	"go/types"
	"sort"
	"strconv"
	"strings"

	"golang.org/x/tools/go/packages"
)

type Obligation struct {
	Name   string   `json:"name"`
	Func   string   `json:"func"`
	Kind   string   `json:"kind"`
	Label  string   `json:"label,omitempty"`
	Pos    string   `json:"pos"`
	Goal   string   `json:"goal"`   // readable source of the goal
	Decls  []string `json:"-"`      // function-level declarations
	PC     []string `json:"-"`      // assumptions
	Neg    string   `json:"-"`      // SMT goal (to be negated)
	Expect string   `json:"expect"` // "unsat" (proof) or "sat" (vacuity / reachability canary)
	Using  []string `json:"using,omitempty"` // proof hint: tags of the quantified assumptions to try first
	fx     *FuncExec
}

type FuncInfo struct {
	Key    string
	Pkg    *packages.Package
	Decl   *ast.FuncDecl
	Lit    *ast.FuncLit
	Obj    *types.Func
	Sig    *types.Signature
	Parent *FuncInfo
	Body   *ast.BlockStmt
}

type loopCtx struct {
	breaks, continues []*State
	isSwitch          bool
}

type FuncExec struct {
	params   []*types.Var        // receiver and parameters, in declaration order
	addrTaken map[*types.Var]bool // struct-typed locals whose address is taken (may be aliased)
	callSeq  int               // numbers the call sites met so far (provenance tags)
	selfTerm string            // literals: the constant naming the closure value being executed
	initCopy bool              // copying into the sub-objects of an object being created by a composite literal
	tagOf    map[string]string // provenance of assumptions (for "using" hints)
	tailStmt ast.Stmt // tail-split: the statement whose branch states are handed over un-merged
	tailOuts []*State
	ctx      *Ctx
	reg      *Registry
	pkg      *packages.Package
	info     *types.Info
	fi       *FuncInfo
	contract *Contract
	decls    []string
	nfresh   int
	nq       int
	varSort  map[string]string
	varType  map[string]types.Type
	entry    *State
	obls     []*Obligation
	counters map[string]int
	loops    []*loopCtx
	rets     []*State
	loopOrd  int
	boxed    map[*types.Var]bool // address-taken non-struct locals
	captured map[*types.Var]bool
	used     map[string]bool
	ghFacts  []ghFact
	uncontr  map[string]bool
	notes    []string
	resKeys  []string // state keys of results
	resNames []string
	litOrd   int
	writes   map[string]bool // heap components written (for assigns check)
	capWrite []string
	outOfSub string
	ghostVar map[string]string // ghost variable name -> state key
	curPos   token.Pos
	forced    int    // candidate forced at the next closed-world dispatch (-1: none)
	suffix    string // appended to obligation names while a case split is active
	loopDepth int
	modSet   map[string][]string // own modifies set: key sort -> entry-state terms (nil map: no modifies clause)
}

// (tail-split bookkeeping lives in FuncExec: tailStmt, tailOuts)
type ghFact struct {
	comp string
	fact string
	key  string // the heap version the fact is about: the fact is emitted iff the obligation mentions it
	chain bool  // allocation-monotonicity link: emitted when any version of the component is mentioned
}

func (fx *FuncExec) fresh(hint, sort string) string {
	fx.nfresh++
	n := fmt.Sprintf("%s!%d", sanitize(hint), fx.nfresh)
	fx.decls = append(fx.decls, fmt.Sprintf("(declare-const %s %s)", n, sort))
	return n
}

var varIDs = map[*types.Var]int{}
var varIDmu sync.Mutex

// varKey: a state key unique per variable OBJECT (the implicit variables of
// the clauses of a type switch share name and position).
func varKey(v *types.Var) string {
	varIDmu.Lock()
	id, ok := varIDs[v]
	if !ok {
		id = len(varIDs) + 1
		varIDs[v] = id
	}
	varIDmu.Unlock()
	return fmt.Sprintf("L:%s@%d.%d", v.Name(), v.Pos(), id)
}

func (fx *FuncExec) posStr(p token.Pos) string {
	ps := fx.ctx.fset.Position(p)
	f := ps.Filename
	if i := strings.LastIndex(f, "/repo/"); i >= 0 {
		f = f[i+6:]
	}
	return fmt.Sprintf("%s:%d", f, ps.Line)
}

type subsetError struct{ msg string }

func (fx *FuncExec) unsupported(pos token.Pos, format string, args ...interface{}) {
	panic(subsetError{fx.posStr(pos) + ": " + fmt.Sprintf(format, args...)})
}

// H reads the current version of a heap component and records its use.
func (fx *FuncExec) H(st *State, comp string) string {
	fx.used[comp] = true
	if tv, ok := st.vars[comp]; ok && (strings.HasPrefix(tv, "HP_") || strings.HasPrefix(tv, "HO_")) {
		return tv // template state of a pred definition
	}
	if fx.isStructValuedComp(comp) {
		// which sub-object belongs to which object never changes: one constant array
		// for the whole function (sub-objects of objects created later are the
		// not-yet-allocated references it already maps them to)
		v := fx.h0(comp)
		if _, ok := st.vars[comp]; !ok {
			st.vars[comp] = v
			fx.recordGoodHeap(st, []string{comp})
		}
		st.vars[comp] = v
		return v
	}
	v, ok := st.vars[comp]
	if !ok {
		if _, known := fx.reg.compSort[comp]; !known {
			panic(fmt.Sprintf("unknown heap component %s", comp))
		}
		v = fx.h0(comp)
		st.vars[comp] = v
		fx.recordGoodHeap(st, []string{comp})
	}
	return v
}

func (fx *FuncExec) setH(st *State, comp, val string) {
	if fx.isStructValuedComp(comp) {
		panic(subsetError{"internal: write to the sub-object map " + comp})
	}
	fx.used[comp] = true
	fx.writes[comp] = true
	c := fx.fresh(comp, fx.reg.compSort[comp])
	g := st.guard()
	if g == "true" {
		st.pc = append(st.pc, eq(c, val))
	} else {
		st.pc = append(st.pc, eq(c, ite(g, val, st.vars[comp])))
	}
	st.vars[comp] = c
}

// havocHeap replaces the given heap components by unconstrained versions and
// records good-heap facts for them.
func (fx *FuncExec) havocHeap(st *State, comps []string) {
	g := st.guard()
	for _, c := range comps {
		if fx.isStructValuedComp(c) {
			continue
		}
		n := fx.fresh(c, fx.reg.compSort[c])
		if g != "true" {
			n2 := fx.fresh(c, fx.reg.compSort[c])
			st.pc = append(st.pc, eq(n2, ite(g, n, st.vars[c])))
			n = n2
		}
		st.vars[c] = n
	}
	fx.recordGoodHeap(st, comps)
}

// recordGoodHeap emits the heap well-formedness facts for the current
// versions of comps (null map is empty; stored references are allocated).
func (fx *FuncExec) recordGoodHeap(st *State, comps []string) {
	r := fx.reg
	for _, c := range comps {
		cur := st.vars[c]
		switch {
		case strings.HasPrefix(c, "MD_"):
			mi := r.maps[strings.TrimPrefix(c, "MD_")]
			fx.ghFacts = append(fx.ghFacts, ghFact{c, eq(sel(cur, "null_"+mi.Sort), "((as const (Array "+mi.K+" Bool)) false)"), cur, false})
		case strings.HasPrefix(c, "MV_"):
			mi := r.maps[strings.TrimPrefix(c, "MV_")]
			// closed maps: a key outside the domain holds the zero value
			if _, ok := st.vars[mi.Dom]; !ok {
				fx.H(st, mi.Dom)
			}
			fx.ghFacts = append(fx.ghFacts, ghFact{c, fmt.Sprintf("(forall ((m %s) (k %s)) (! (or (select (select %s m) k) (= (select (select %s m) k) %s)) :pattern ((select (select %s m) k))))",
				mi.Sort, mi.K, st.vars[mi.Dom], cur, r.Zero(mi.V), cur), cur, false})
			if al, ok := r.allocOf[mi.V]; ok && mi.V != "SRef" {
				fx.ghFacts = append(fx.ghFacts, ghFact{c, fmt.Sprintf("(forall ((m %s) (k %s)) (! (or (= (select (select %s m) k) null_%s) (select %s (select (select %s m) k))) :pattern ((select (select %s m) k))))",
					mi.Sort, mi.K, cur, mi.V, st.vars[al], cur, cur), cur, false})
			}
		case strings.HasPrefix(c, "F_") || strings.HasPrefix(c, "PV_"):
			cs := r.compSort[c]
			ks, vs := arraySorts(cs)
			if r.imm[c] {
				// immutable field: a function of the reference; an allocated object's
				// immutable reference field is nil or allocated
				if al, ok := r.allocOf[vs]; ok && vs != "SRef" {
					if alo, ok := r.allocOf[ks]; ok {
						f := fmt.Sprintf("(forall ((r %s)) (! (=> (select %s r) (or (= (imm_%s r) null_%s) (select %s (imm_%s r)))) :pattern ((imm_%s r))))",
							ks, fx.H(st, alo), c, vs, fx.H(st, al), c, c)
						fx.ghFacts = append(fx.ghFacts, ghFact{c, f, "imm_" + c, false})
					}
				}
				continue
			}
			if al, ok := r.allocOf[vs]; ok && vs != "SRef" && !fx.isStructValuedComp(c) {
				fx.ghFacts = append(fx.ghFacts, ghFact{c, fmt.Sprintf("(forall ((r %s)) (! (or (= (select %s r) null_%s) (select %s (select %s r))) :pattern ((select %s r))))",
					ks, cur, vs, st.vars[al], cur, cur), cur, false})
			}
			// a struct-VALUED field always holds its own (non-nil, allocated) sub-object
			// (only stated for allocated objects: the sub-object map is one constant array, and
			// the sub-objects of objects created later are references not allocated yet)
			if fx.isStructValuedComp(c) {
				if alo, ok := r.allocOf[ks]; ok {
					fx.ghFacts = append(fx.ghFacts, ghFact{c, fmt.Sprintf("(forall ((r %s)) (! (=> (select %s r) (and (not (= (select %s r) null_%s)) (select %s (select %s r)))) :pattern ((select %s r))))",
						ks, st.vars[alo], cur, vs, st.vars[r.allocOf[vs]], cur, cur), cur, false})
				}
			}
			if vs == "Slice" {
				fx.ghFacts = append(fx.ghFacts, ghFact{c, fmt.Sprintf("(forall ((r %s)) (! (and (>= (slen (select %s r)) 0) (>= (soff (select %s r)) 0) (or (and (= (sref (select %s r)) null_SRef) (= (slen (select %s r)) 0)) (select %s (sref (select %s r))))) :pattern ((select %s r))))",
					ks, cur, cur, cur, cur, st.vars["AL_SRef"], cur, cur), cur, false})
			}
		case strings.HasPrefix(c, "SE_"):
			cs := r.compSort[c]
			_, inner := arraySorts(cs)
			_, vs := arraySorts(inner)
			if al, ok := r.allocOf[vs]; ok && vs != "SRef" {
				fx.ghFacts = append(fx.ghFacts, ghFact{c, fmt.Sprintf("(forall ((r SRef) (i Int)) (! (or (= (select (select %s r) i) null_%s) (select %s (select (select %s r) i))) :pattern ((select (select %s r) i))))",
					cur, vs, st.vars[al], cur, cur), cur, false})
			}
		case strings.HasPrefix(c, "AL_"):
			srt := strings.TrimPrefix(c, "AL_")
			fx.ghFacts = append(fx.ghFacts, ghFact{c, not(sel(cur, "null_"+srt)), cur, false})
		}
	}
}

func (fx *FuncExec) alloc(st *State, sort, hint string) string {
	al := fx.reg.allocOf[sort]
	r := fx.fresh("new_"+hint, sort)
	st.assume(and(not(sel(fx.H(st, al), r)), not(eq(r, "null_"+sort))))
	fx.setH(st, al, store(st.vars[al], r, "true"))
	return r
}

// allocStruct allocates a zero-initialised struct object (recursively for
// struct-valued fields).
func (fx *FuncExec) allocStruct(st *State, si *StructInfo, skipImm ...map[string]bool) string {
	r := fx.alloc(st, si.Sort, si.Name)
	fx.initStructAt(st, si, r, r, skipImm...)
	return r
}

// allocStructAt allocates the struct object named by the term r (the
// sub-object of an object being created): r is assumed unallocated so far.
func (fx *FuncExec) allocStructAt(st *State, si *StructInfo, r, key string, skipImm ...map[string]bool) {
	al := si.Alloc
	st.assume(and(not(sel(fx.H(st, al), r)), not(eq(r, "null_"+si.Sort))))
	fx.setH(st, al, store(st.vars[al], r, "true"))
	fx.initStructAt(st, si, r, key, skipImm...)
}

func (fx *FuncExec) initStructAt(st *State, si *StructInfo, r, key string, skipImm ...map[string]bool) {
	for _, f := range si.Fields {
		ft := si.FieldT[f]
		fs := fx.reg.SortOf(ft)
		zero := fx.reg.Zero(fs)
		if fx.reg.imm[si.Comp[f]] {
			if len(skipImm) == 0 || !(skipImm[0][f] || skipImm[0]["*"]) {
				fx.immFact(key, eq("(imm_"+si.Comp[f]+" "+r+")", zero))
			}
			continue
		}
		comp := si.Comp[f]
		if sub := fx.structValInfo(ft); sub != nil {
			subr := sel(fx.H(st, comp), r)
			if len(skipImm) > 0 && (skipImm[0][f] || skipImm[0]["*"]) {
				// the sub-object is initialised from the literal: its immutable fields
				// get their values there, not the zero value
				fx.allocStructAt(st, sub, subr, key, map[string]bool{"*": true})
			} else {
				fx.allocStructAt(st, sub, subr, key)
			}
			continue
		}
		fx.setHq(st, comp, store(fx.H(st, comp), r, zero))
	}
}

// setHq is setH for writes into freshly allocated objects: not a frame-relevant write.
func (fx *FuncExec) setHq(st *State, comp, val string) {
	// initialising writes into fresh objects still change the component as a
	// whole, so they count for the assigns clause (callers havoc by component).
	fx.setH(st, comp, val)
}

// structValInfo returns struct info if t is a struct *value* type modelled on the heap.
func (fx *FuncExec) structValInfo(t types.Type) *StructInfo {
	t = types.Unalias(t)
	if _, isPtr := t.(*types.Pointer); isPtr {
		return nil
	}
	if n, ok := t.(*types.Named); ok {
		if isReflect(n, "Value") {
			return nil
		}
		if n.Obj().Pkg() != nil {
			if _, op := fx.reg.opaque[n.Obj().Pkg().Path()+"."+n.Obj().Name()]; op {
				return nil
			}
		}
	}
	_, isNamed := t.(*types.Named)
	if u, ok := t.Underlying().(*types.Struct); ok && (u.NumFields() > 0 || isNamed) {
		s := fx.reg.SortOf(t)
		return fx.reg.structs[s]
	}
	return nil
}

func (fx *FuncExec) copyStruct(st *State, src string, si *StructInfo, quiet bool) string {
	r := fx.alloc(st, si.Sort, si.Name)
	fx.copyFieldsFresh(st, r, r, src, si)
	return r
}

// copyFieldsFresh initialises the freshly allocated object r as a copy of src.
func (fx *FuncExec) copyFieldsFresh(st *State, r, key, src string, si *StructInfo) {
	for _, f := range si.Fields {
		comp := si.Comp[f]
		if fx.reg.imm[comp] {
			fx.immFact(key, eq("(imm_"+comp+" "+r+")", "(imm_"+comp+" "+src+")"))
			continue
		}
		if sub := fx.structValInfo(si.FieldT[f]); sub != nil {
			subr := sel(fx.H(st, comp), r)
			al := sub.Alloc
			st.assume(and(not(sel(fx.H(st, al), subr)), not(eq(subr, "null_"+sub.Sort))))
			fx.setH(st, al, store(st.vars[al], subr, "true"))
			fx.copyFieldsFresh(st, subr, key, sel(fx.H(st, comp), src), sub)
			continue
		}
		fx.setHq(st, comp, store(fx.H(st, comp), r, sel(fx.H(st, comp), src)))
	}
}

// copyInto copies all fields of struct object src into existing object dst.
func (fx *FuncExec) copyInto(st *State, dst, src string, si *StructInfo, quiet bool) {
	for _, f := range si.Fields {
		comp := si.Comp[f]
		if fx.reg.imm[comp] {
			if quiet && fx.initCopy {
				// initialisation of a sub-object of a freshly created object
				st.assume(eq("(imm_"+comp+" "+dst+")", "(imm_"+comp+" "+src+")"))
				continue
			}
			fx.oblige(st, "immutable-write", f, eq("(imm_"+comp+" "+dst+")", "(imm_"+comp+" "+src+")"), "struct copy keeps immutable field "+f, fx.curPos)
			continue
		}
		v := sel(fx.H(st, comp), src)
		if sub := fx.structValInfo(si.FieldT[f]); sub != nil {
			fx.copyInto(st, sel(fx.H(st, comp), dst), v, sub, quiet)
			continue
		}
		if quiet {
			fx.setHq(st, comp, store(fx.H(st, comp), dst, v))
		} else {
			fx.frameWrite(st, comp, dst, fx.curPos)
			fx.setH(st, comp, store(fx.H(st, comp), dst, v))
		}
	}
}

func (fx *FuncExec) ptrInfoBySort(s string) *PtrInfo {
	return fx.reg.ptrs[s]
}

func (fx *FuncExec) typeForSort(s string) types.Type {
	var found types.Type
	n := 0
	for _, b := range fx.reg.boxList {
		if b.Sort == s {
			found = b.T
			n++
		}
	}
	if n == 1 {
		return found
	}
	if si, ok := fx.reg.structs[s]; ok && si.Named != nil {
		return types.NewPointer(si.Named)
	}
	return nil
}

// boxTerm converts a concrete value to an interface value.
func (fx *FuncExec) boxTerm(t Term) Term {
	if t.Sort == "Any" {
		return t
	}
	if t.T == nil {
		panic(specError{"cannot box untyped term " + t.S})
	}
	if types.IsInterface(t.T) && t.Sort == "Any" {
		return Term{S: t.S, Sort: "Any", T: t.T}
	}
	b := fx.reg.Box(t.T)
	// nil pointers boxed into interfaces are non-nil interfaces in Go; we model exactly that.
	return Term{S: "(box_" + b.Key + " " + t.S + ")", Sort: "Any", T: t.T}
}

func (fx *FuncExec) constTerm(v constant.Value, t types.Type) Term {
	switch v.Kind() {
	case constant.Bool:
		return Term{S: strconv.FormatBool(constant.BoolVal(v)), Sort: "Bool", T: t}
	case constant.String:
		return Term{S: fx.reg.StrLit(constant.StringVal(v)), Sort: "Str", T: t}
	case constant.Int:
		s := v.ExactString()
		if strings.HasPrefix(s, "-") {
			s = "(- " + s[1:] + ")"
		}
		return Term{S: s, Sort: "Int", T: t}
	}
	return Term{S: "0", Sort: "Int", T: t}
}

func (fx *FuncExec) pkgVar(v *types.Var) Term {
	name := "gv_" + sanitize(v.Pkg().Name()+"_"+v.Name())
	srt := fx.reg.SortOf(v.Type())
	fx.reg.declFun(name, fmt.Sprintf("(declare-const %s %s)", name, srt))
	return Term{S: name, Sort: srt, T: v.Type()}
}

func (fx *FuncExec) readVar(st *State, v *types.Var) Term {
	k := varKey(v)
	val, ok := st.vars[k]
	if !ok {
		panic(specError{fmt.Sprintf("variable %s not in scope/state", v.Name())})
	}
	if fx.boxed[v] {
		pi := fx.reg.ptrOf(types.NewPointer(v.Type()))
		return Term{S: sel(fx.H(st, pi.Comp), val), Sort: fx.reg.SortOf(v.Type()), T: v.Type()}
	}
	return Term{S: val, Sort: fx.varSort[k], T: v.Type()}
}

func (fx *FuncExec) fieldRead(st *State, base Term, field string, fail func(string)) Term {
	si, ok := fx.reg.structs[base.Sort]
	if !ok {
		fail(fmt.Sprintf("field %s of non-struct %s : %s", field, base.S, base.Sort))
		return Term{}
	}
	if comp, ok := si.Comp[field]; ok {
		ft := si.FieldT[field]
		if fx.reg.imm[comp] {
			return Term{S: "(imm_" + comp + " " + base.S + ")", Sort: fx.reg.SortOf(ft), T: ft}
		}
		if ft == nil {
			_, vs := arraySorts(fx.reg.compSort[comp])
			return Term{S: sel(fx.H(st, comp), base.S), Sort: vs}
		}
		return Term{S: sel(fx.H(st, comp), base.S), Sort: fx.reg.SortOf(ft), T: ft}
	}
	// promoted through embedded struct values
	for _, f := range si.Fields {
		if sub := fx.structValInfo(si.FieldT[f]); sub != nil {
			if _, ok := sub.Comp[field]; ok {
				inner := Term{S: sel(fx.H(st, si.Comp[f]), base.S), Sort: sub.Sort, T: si.FieldT[f]}
				return fx.fieldRead(st, inner, field, fail)
			}
		}
	}
	fail(fmt.Sprintf("no field %s in %s", field, si.Name))
	return Term{}
}

func (fx *FuncExec) lenTerm(st *State, v Term) Term {
	if mi, ok := fx.reg.maps[v.Sort]; ok {
		card := fx.cardFun(mi.K)
		return Term{S: "(" + card + " " + sel(fx.H(st, mi.Dom), v.S) + ")", Sort: "Int", T: types.Typ[types.Int]}
	}
	if v.Sort == "Slice" {
		return Term{S: "(slen " + v.S + ")", Sort: "Int", T: types.Typ[types.Int]}
	}
	if strings.HasPrefix(v.Sort, "(Array ") {
		ks, _ := arraySorts(v.Sort)
		return Term{S: "(" + fx.cardFun(ks) + " " + v.S + ")", Sort: "Int", T: types.Typ[types.Int]}
	}
	if v.Sort == "Str" {
		fx.reg.declFun("str_len", "(declare-fun str_len (Str) Int)")
		return Term{S: "(str_len " + v.S + ")", Sort: "Int", T: types.Typ[types.Int]}
	}
	panic(specError{"len of " + v.Sort})
}

func (fx *FuncExec) cardFun(ksort string) string {
	n := "card_" + sanitize(ksort)
	if !fx.reg.declared[n] {
		set := "(Array " + ksort + " Bool)"
		fx.reg.declFun(n, fmt.Sprintf("(declare-fun %s (%s) Int)", n, set))
		fx.reg.axioms = append(fx.reg.axioms,
			fmt.Sprintf("(assert (forall ((d %s)) (! (and (>= (%s d) 0) (= (= (%s d) 0) (= d ((as const %s) false)))) :pattern ((%s d)))))", set, n, n, set, n),
			fmt.Sprintf("(assert (forall ((d %s) (k %s)) (! (=> (select d k) (= (%s (store d k false)) (- (%s d) 1))) :pattern ((%s (store d k false))))))", set, ksort, n, n, n),
			fmt.Sprintf("(assert (forall ((d %s) (k %s)) (! (=> (not (select d k)) (= (%s (store d k true)) (+ (%s d) 1))) :pattern ((%s (store d k true))))))", set, ksort, n, n, n),
		)
	}
	return n
}

// oblige records a proof obligation: under the state's path condition, goal holds.
func (fx *FuncExec) oblige(st *State, kind, label, goalSMT, goalText string, pos token.Pos) *Obligation {
	// labelled obligations are named by their label (stable under insertion
	// of further clauses); unlabelled ones by ordinal
	var name string
	if label != "" && (kind == "assert" || kind == "ensures") {
		ck := kind + "/" + label + fx.suffix
		fx.counters[ck]++
		name = fmt.Sprintf("%s/%s/%s", fx.fi.Key, kind, label)
		if n := fx.counters[ck]; n > 1 {
			name += fmt.Sprintf("~%d", n)
		}
	} else {
		fx.counters[kind]++
		name = fmt.Sprintf("%s/%s#%d", fx.fi.Key, kind, fx.counters[kind])
		if label != "" {
			name += "/" + label
		}
	}
	name += fx.suffix
	o := &Obligation{Name: name, Func: fx.fi.Key, Kind: kind, Label: label, Pos: fx.posStr(pos), Goal: goalText,
		PC: append(append([]string(nil), st.pc...), st.guards...), Neg: goalSMT, Expect: "unsat", fx: fx}
	if fx.contract != nil {
		for _, h := range fx.contract.KindHints {
			if h.Re.MatchString(kind + "/" + label) {
				o.Using = h.Using
			}
		}
	}
	fx.obls = append(fx.obls, o)
	return o
}

func (fx *FuncExec) specEnv(cur, old *State, pos token.Pos, where string) *SpecEnv {
	var scope *types.Scope
	if pos != token.NoPos {
		scope = fx.pkg.Types.Scope().Innermost(pos)
	}
	e := &SpecEnv{fx: fx, cur: cur, old: old, bound: map[string]Term{}, scope: scope, pos: pos, pkg: fx.pkg.Types, where: where}
	if fx.selfTerm != "" {
		e.bound["self"] = Term{S: fx.selfTerm, Sort: "Fn"}
	}
	for name, key := range fx.ghostVar {
		if v, ok := cur.vars[key]; ok {
			e.bound[name] = Term{S: v, Sort: fx.varSort[key], T: fx.varType[key]}
		}
	}
	return e
}

// Render produces the SMT-LIB script for an obligation: pruned global
// preamble, the function-level constants it mentions, assumptions, goal.
func (o *Obligation) Render(_ string) string { return o.RenderDepth(0) }

// RenderDepth renders the obligation with the assumptions restricted to those
// within `depth` symbol-sharing hops of the goal (0: the whole cone).
func (o *Obligation) RenderDepth(depth int) string { return o.RenderOpts(depth, false) }

// RenderOpts: with hideDefs, the defining axioms of preds that do not occur in
// the goal are left out (their applications stay as uninterpreted atoms).
// Leaving out axioms is sound for "unsat".
func (o *Obligation) RenderOpts(depth int, hideDefs bool) string {
	fx := o.fx
	var hide func(string) bool
	if hideDefs {
		gs := map[string]bool{}
		symbolsOf(o.Neg, gs)
		// preds reachable from the goal through pred bodies stay revealed
		reveal := map[string]bool{}
		var visit func(sy string)
		visit = func(sy string) {
			if !strings.HasPrefix(sy, "gd_") || reveal[sy] {
				return
			}
			reveal[sy] = true
			for dep := range fx.reg.namedDeps[sy] {
				visit(dep)
			}
		}
		for sy := range gs {
			visit(sy)
		}
		for _, u := range o.Using {
			visit("gd_" + u)
		}
		hide = func(fn string) bool { return !reveal[fn] }
	}
	var body strings.Builder
	seen := map[string]bool{}
	var kept []string
	if depth == -2 {
		kept = fx.sliceUsing(o.PC, o.Using)
	} else {
		kept = sliceAssumptions(o.PC, o.Neg, o.Expect == "sat", depth)
	}
	for _, p := range kept {
		body.WriteString("(assert " + p + ")\n")
	}
	if o.Expect == "unsat" {
		body.WriteString("(assert (not " + o.Neg + "))\n")
	} else {
		body.WriteString("(assert " + o.Neg + ")\n")
	}
	syms := map[string]bool{}
	symbolsOf(body.String(), syms)
	var goalFam map[string]bool
	if depth == -1 {
		goalFam = map[string]bool{}
		gs := map[string]bool{}
		symbolsOf(o.Neg, gs)
		for sy := range gs {
			if f := heapFamily(sy); f != "" {
				goalFam[f] = true
				if strings.HasPrefix(f, "MD_") {
					goalFam["MV_"+strings.TrimPrefix(f, "MD_")] = true
				}
				if strings.HasPrefix(f, "MV_") {
					goalFam["MD_"+strings.TrimPrefix(f, "MV_")] = true
				}
			}
			if f := heapFamily(sy); f != "" {
				// allocation sets of the sorts those components are indexed by / hold
				if cs, ok := fx.reg.compSort[f]; ok {
					ks, vs := arraySorts(cs)
					if _, ok := fx.reg.allocOf[ks]; ok {
						goalFam["AL_"+ks] = true
					}
					if _, ok := fx.reg.allocOf[vs]; ok {
						goalFam["AL_"+vs] = true
					}
					if vs == "Slice" || strings.HasPrefix(f, "SE_") {
						goalFam["AL_SRef"] = true
					}
				}
			}
			a := strings.TrimPrefix(strings.TrimPrefix(sy, "H0_"), "j_")
			if strings.HasPrefix(a, "AL_") {
				if i := strings.Index(a, "!"); i >= 0 {
					a = a[:i]
				}
				goalFam[a] = true
			}
		}
	}
	// good-heap facts: only for heap versions the obligation itself mentions
	var gh strings.Builder
	compMentioned := map[string]bool{}
	for sy := range syms {
		if strings.HasPrefix(sy, "H0_AL_") {
			compMentioned[strings.TrimPrefix(sy, "H0_")] = true
		} else if strings.HasPrefix(sy, "AL_") {
			if i := strings.Index(sy, "!"); i > 0 {
				compMentioned[sy[:i]] = true
			}
		}
	}
	for changed := true; changed; {
		changed = false
		for _, g := range fx.ghFacts {
			if seen[g.fact] {
				continue
			}
			if !(syms[g.key] || (g.chain && compMentioned[g.comp])) {
				continue
			}
			if depth == -2 && g.chain && !tagMatches("alloc", o.Using) {
				continue // hinted attempt: allocation-monotonicity links only on request ("using alloc")
			}
			if goalFam != nil {
				// family attempt: heap facts only for the components (and
				// allocation sets) the goal itself speaks about
				if strings.HasPrefix(g.comp, "AL_") {
					if !goalFam[g.comp] {
						continue
					}
				} else if f := heapFamily(g.comp); f != "" && !goalFam[f] {
					continue
				}
			}
			seen[g.fact] = true
			changed = true
			gh.WriteString("(assert " + g.fact + ")\n")
			symbolsOf(g.fact, syms)
		}
	}
	full := gh.String() + body.String()
	var b strings.Builder
	b.WriteString(fx.reg.PreambleFor(full, fx.axiomPkgOK(), hide))
	for _, d := range fx.decls {
		if syms[declName(d)] {
			b.WriteString(d + "\n")
		}
	}
	b.WriteString(full)
	b.WriteString("(check-sat)\n")
	return b.String()
}

func sortedKeys(m map[string]bool) []string {
	ks := make([]string, 0, len(m))
	for k := range m {
		ks = append(ks, k)
	}
	sort.Strings(ks)
	return ks
}

// modTerms evaluates a contract's modifies clause in the given environment and
// groups the designated objects by reference sort (slices by backing array).
func (fx *FuncExec) modTerms(c *Contract, mk func() *SpecEnv) map[string][]string {
	out := map[string][]string{}
	for _, m := range c.Modifies {
		if call, ok := m.Expr.(*ast.CallExpr); ok {
			if id, ok := call.Fun.(*ast.Ident); ok && id.Name == "forall" && len(call.Args) == 3 {
				// set comprehension: every x of type T satisfying cond (evaluated in the pre-state)
				env := mk()
				xid, ok := call.Args[0].(*ast.Ident)
				if !ok {
					panic(specError{"modifies forall(x, T, cond): x must be an identifier"})
				}
				srt, t := fx.typeFromString(exprString(call.Args[1]), env.pkgOrDefault())
				sub := env.child()
				sub.bound[xid.Name] = Term{S: "%R%", Sort: srt, T: t}
				cond := sub.Bool(call.Args[2])
				out[srt] = append(out[srt], "?pred:"+cond)
				continue
			}
		}
		t := mk().tr(m.Expr)
		switch {
		case t.Sort == "Slice":
			out["SRef"] = append(out["SRef"], "(sref "+t.S+")")
		case t.Sort == nilSort:
		default:
			out[t.Sort] = append(out[t.Sort], t.S)
		}
	}
	return out
}

func notInSet(r string, set []string) string {
	var ds []string
	for _, m := range set {
		if strings.HasPrefix(m, "?pred:") {
			ds = append(ds, not(strings.ReplaceAll(strings.TrimPrefix(m, "?pred:"), "%R%", r)))
			continue
		}
		ds = append(ds, not(eq(r, m)))
	}
	return and(ds...)
}

func inSetTerms(r string, set []string) []string {
	var ins []string
	for _, m := range set {
		if strings.HasPrefix(m, "?pred:") {
			ins = append(ins, strings.ReplaceAll(strings.TrimPrefix(m, "?pred:"), "%R%", r))
			continue
		}
		ins = append(ins, eq(r, m))
	}
	return ins
}

// frameFacts: after a call whose callee has a modifies clause, every object
// that was allocated before and is not in the modifies set is unchanged in
// the havocked components.
func (fx *FuncExec) frameFacts(st, pre *State, comps []string, mod map[string][]string) {
	for _, c := range comps {
		if strings.HasPrefix(c, "AL_") || strings.HasPrefix(c, "GV_") {
			continue
		}
		ks, _ := arraySorts(fx.reg.compSort[c])
		al, ok := fx.reg.allocOf[ks]
		if !ok {
			continue
		}
		preAl := pre.vars[al]
		if preAl == "" {
			preAl = fx.h0(al)
		}
		fx.nq++
		r := fmt.Sprintf("r!f%d", fx.nq)
		fact := fmt.Sprintf("(forall ((%s %s)) (! (=> %s (= (select %s %s) (select %s %s))) :pattern ((select %s %s))))",
			r, ks, and(sel(preAl, r), notInSet(r, mod[ks])), st.vars[c], r, pre.vars[c], r, st.vars[c], r)
		fx.ghFacts = append(fx.ghFacts, ghFact{c, fact, st.vars[c], false})
	}
}

// frameWrite: a write to object ref in component comp must target a fresh
// object or one named in this function's modifies clause.
func (fx *FuncExec) frameWrite(st *State, comp, ref string, pos token.Pos) {
	if fx.modSet == nil {
		return
	}
	ks, _ := arraySorts(fx.reg.compSort[comp])
	al, ok := fx.reg.allocOf[ks]
	if !ok {
		return
	}
	entryAl := fx.entry.vars[al]
	if entryAl == "" {
		entryAl = fx.h0(al)
	}
	ins := inSetTerms(ref, fx.modSet[ks])
	goal := imp(sel(entryAl, ref), or(ins...))
	fx.oblige(st, "frame-write", "", goal, "write to "+comp+" targets a fresh object or one in the modifies clause", pos)
}

// isStructValuedComp: is comp the heap component of a struct-valued (embedded by value) field?
func (fx *FuncExec) isStructValuedComp(comp string) bool {
	if !strings.HasPrefix(comp, "F_") {
		return false
	}
	if v, ok := fx.reg.svComp[comp]; ok {
		return v
	}
	for _, si := range fx.reg.structs {
		for _, f := range si.Fields {
			if si.Comp[f] == comp {
				v := fx.structValInfo(si.FieldT[f]) != nil
				fx.reg.svComp[comp] = v
				return v
			}
		}
	}
	return false
}

// axiomPkgOK: spec axioms of package p are usable for this function's
// obligations if p is the function's package or one it (transitively) imports.
func (fx *FuncExec) axiomPkgOK() func(string) bool {
	own := fx.pkg.PkgPath
	return func(p string) bool {
		if p == own {
			return true
		}
		seen := map[string]bool{}
		var dep func(q *packages.Package) bool
		dep = func(q *packages.Package) bool {
			if seen[q.PkgPath] {
				return false
			}
			seen[q.PkgPath] = true
			for path, imp := range q.Imports {
				if path == p || dep(imp) {
					return true
				}
			}
			return false
		}
		return dep(fx.pkg)
	}
}

var noSlice = os.Getenv("VERIF_NOSLICE") == "1"

var hubLimit = func() int {
	if v, err := strconv.Atoi(os.Getenv("VERIF_HUB")); err == nil {
		return v
	}
	return 12
}()

// sliceAssumptions keeps only the assumptions in the cone of influence of the
// goal: those sharing (transitively) a program-level symbol with it. Dropping
// an assumption is always sound; it only makes the query smaller.
func sliceAssumptions(pc []string, goal string, keepAll bool, depth int) []string {
	if keepAll || noSlice || len(pc) < 40 {
		return pc
	}
	if depth < 0 {
		return sliceByFamily(pc, goal)
	}
	link := func(sym string) bool {
		if ubiquitous[sym] || strings.HasPrefix(sym, "AL_") || strings.HasPrefix(sym, "H0_AL_") || strings.HasPrefix(sym, "null_") ||
			strings.HasPrefix(sym, "uf_") || strings.HasPrefix(sym, "gd_") || strings.HasPrefix(sym, "box_") || strings.HasPrefix(sym, "unbox_") || strings.HasPrefix(sym, "impl_") ||
			strings.HasPrefix(sym, "str_") || strings.HasPrefix(sym, "gv_") || strings.HasPrefix(sym, "imm_") || strings.HasPrefix(sym, "cap_") ||
			sym == "sref" || sym == "soff" || sym == "slen" || sym == "mk_slice" || sym == "nil_slice" || sym == "tag" || sym == "fn_code" || sym == "fn_nil" ||
			sym == "rv_invalid" || sym == "rt_nil" || sym == "unit" || sym == "wrap32" || sym == "wrap8" {
			return false
		}
		if len(sym) > 0 && (sym[0] >= '0' && sym[0] <= '9') {
			return false
		}
		return strings.Contains(sym, "!") || strings.HasPrefix(sym, "H0_")
	}
	psyms := make([]map[string]bool, len(pc))
	for i, p := range pc {
		m := map[string]bool{}
		symbolsOf(p, m)
		ps := map[string]bool{}
		for sy := range m {
			if link(sy) {
				ps[sy] = true
			}
		}
		psyms[i] = ps
	}
	// in depth-limited mode, symbols shared by many assumptions (program
	// variables used everywhere, long-lived heap versions) do not link
	hub := map[string]bool{}
	if depth > 0 {
		cnt := map[string]int{}
		for _, ps := range psyms {
			for sy := range ps {
				cnt[sy]++
			}
		}
		for sy, n := range cnt {
			if n > hubLimit {
				hub[sy] = true
			}
		}
	}
	rel := map[string]bool{}
	gs := map[string]bool{}
	symbolsOf(goal, gs)
	for sy := range gs {
		if link(sy) {
			rel[sy] = true
		}
	}
	if len(rel) == 0 {
		return pc // a goal without program symbols (e.g. "unreachable") depends on everything
	}
	in := make([]bool, len(pc))
	round := 0
	for changed := true; changed; {
		changed = false
		round++
		if depth > 0 && round > depth {
			break
		}
		add := map[string]bool{}
		for i := range pc {
			if in[i] {
				continue
			}
			hit := len(psyms[i]) == 0 // closed facts (no program symbol) are kept
			for sy := range psyms[i] {
				if rel[sy] {
					hit = true
					break
				}
			}
			if hit {
				in[i] = true
				changed = true
				for sy := range psyms[i] {
					add[sy] = true
				}
			}
		}
		for sy := range add {
			if !hub[sy] {
				rel[sy] = true
			}
		}
	}
	var out []string
	for i, p := range pc {
		if in[i] {
			out = append(out, p)
		}
	}
	return out
}


// heapFamily maps a heap-component symbol (any version) to its component
// name, "" for other symbols.
func heapFamily(sym string) string {
	sym = strings.TrimPrefix(sym, "H0_")
	sym = strings.TrimPrefix(sym, "j_")
	if i := strings.Index(sym, "!"); i >= 0 {
		sym = sym[:i]
	}
	for _, p := range []string{"F_", "MD_", "MV_", "SE_", "PV_", "GV_"} {
		if strings.HasPrefix(sym, p) {
			return sym
		}
	}
	return ""
}

// sliceByFamily keeps the unquantified assumptions and those quantified ones
// that speak only about heap components the goal itself mentions (in any
// version). Sound (fewer assumptions); used as a first attempt.
func sliceByFamily(pc []string, goal string) []string {
	gs := map[string]bool{}
	symbolsOf(goal, gs)
	gf := map[string]bool{}
	for sy := range gs {
		if f := heapFamily(sy); f != "" {
			gf[f] = true
			// a map's domain and values go together
			if strings.HasPrefix(f, "MD_") {
				gf["MV_"+strings.TrimPrefix(f, "MD_")] = true
			}
			if strings.HasPrefix(f, "MV_") {
				gf["MD_"+strings.TrimPrefix(f, "MV_")] = true
			}
		}
	}
	var out []string
	for _, p := range pc {
		if !strings.Contains(p, "(forall ") && !strings.Contains(p, "(exists ") {
			if len(p) < 4000 {
				out = append(out, p)
			}
			continue
		}
		ps := map[string]bool{}
		symbolsOf(p, ps)
		ok := true
		for sy := range ps {
			if f := heapFamily(sy); f != "" && !gf[f] {
				ok = false
				break
			}
		}
		if ok {
			out = append(out, p)
		}
	}
	return out
}


// assumeTagged adds an assumption and records where it comes from.
func (fx *FuncExec) assumeTagged(st *State, f, tag string) {
	n0 := len(st.pc)
	st.assume(f)
	if fx.tagOf == nil {
		fx.tagOf = map[string]string{}
	}
	for _, p := range st.pc[n0:] {
		fx.tagOf[p] = tag
	}
}

var tagSeqRe = regexp.MustCompile(`#[0-9]+`)

func tagMatches(tag string, using []string) bool {
	tag = tagSeqRe.ReplaceAllString(tag, "")
	for _, u := range using {
		if strings.HasSuffix(u, "!") {
			continue // "latest call" patterns are resolved in sliceUsing
		}
		if tag == u || strings.HasPrefix(tag, u+".") || strings.HasSuffix(tag, "."+u) {
			return true
		}
	}
	return false
}

// sliceUsing keeps every unquantified assumption and the quantified ones whose
// provenance tag is named by the hint. A hint "Callee!" names the ensures of
// the most recent call of Callee only.
func (fx *FuncExec) sliceUsing(pc []string, using []string) []string {
	latest := map[string]string{} // callee -> "callee#seq" of its last call among pc
	for _, u := range using {
		if strings.HasSuffix(u, "!") {
			latest[strings.TrimSuffix(u, "!")] = ""
		}
	}
	if len(latest) > 0 {
		for _, p := range pc {
			t, ok := fx.tagOf[p]
			if !ok {
				continue
			}
			i := strings.Index(t, "#")
			if i < 0 {
				continue
			}
			callee := t[:i]
			if _, want := latest[callee]; !want {
				continue
			}
			inst := t
			if j := strings.Index(t[i:], "."); j >= 0 {
				inst = t[:i+j]
			}
			latest[callee] = inst // pc is in program order: the last one wins
		}
	}
	var out []string
	for _, p := range pc {
		if !strings.Contains(p, "(forall ") && !strings.Contains(p, "(exists ") {
			if len(p) < 6000 {
				out = append(out, p)
			}
			continue
		}
		t, ok := fx.tagOf[p]
		if !ok {
			continue
		}
		if tagMatches(t, using) {
			out = append(out, p)
			continue
		}
		for _, inst := range latest {
			if inst != "" && (t == inst || strings.HasPrefix(t, inst+".")) {
				out = append(out, p)
				break
			}
		}
	}
	return out
}

func shortCallee(key string) string {
	if i := strings.LastIndex(key, "."); i >= 0 {
		key = key[i+1:]
	}
	return strings.TrimLeft(key, "(*)")
}


// immFact records the value of an immutable field of the freshly created
// object r. The fact is unconditional (r is a constant naming the object
// created at this program point; on paths that do not create it, r denotes
// nothing else), so it survives state merges instead of being buried in them;
// it is emitted whenever the obligation mentions r.
func (fx *FuncExec) immFact(r, fact string) {
	fx.ghFacts = append(fx.ghFacts, ghFact{"", fact, r, false})
}

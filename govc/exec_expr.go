package main

// exec_expr.go — symbolic evaluation of expressions and assignments.

import (
	"fmt"
	"go/ast"
	"go/token"
	"go/types"
	"strings"
)

func (fx *FuncExec) typeOf(e ast.Expr) types.Type {
	tv, ok := fx.info.Types[e]
	if !ok {
		if id, ok := e.(*ast.Ident); ok {
			if o := fx.info.Uses[id]; o != nil {
				return o.Type()
			}
			if o := fx.info.Defs[id]; o != nil {
				return o.Type()
			}
		}
		return nil
	}
	return tv.Type
}

// evalAny evaluates an expression for its side effects / obligations.
func (fx *FuncExec) evalAny(st *State, e ast.Expr) {
	if call, ok := e.(*ast.CallExpr); ok {
		fx.evalCall(st, call)
		return
	}
	fx.eval(st, e)
}

// evalTo evaluates e and converts it to type t (boxing into interfaces).
func (fx *FuncExec) evalTo(st *State, e ast.Expr, t types.Type) Term {
	v := fx.eval(st, e)
	return fx.convert(st, v, t)
}

func (fx *FuncExec) convert(st *State, v Term, t types.Type) Term {
	if t == nil {
		return v
	}
	srt := fx.reg.SortOf(t)
	if v.Sort == nilSort {
		return Term{S: fx.reg.Zero(srt), Sort: srt, T: t}
	}
	if v.Sort == srt {
		if srt == "Any" && v.T != nil && !types.IsInterface(v.T) {
			return fx.boxTerm(v)
		}
		return v
	}
	if srt == "Any" {
		return fx.boxTerm(v)
	}
	return v
}

func (fx *FuncExec) unifyTerms(st *State, a, b Term) (Term, Term) {
	if a.Sort == b.Sort {
		return a, b
	}
	if a.Sort == nilSort {
		return Term{S: fx.reg.Zero(b.Sort), Sort: b.Sort, T: b.T}, b
	}
	if b.Sort == nilSort {
		return a, Term{S: fx.reg.Zero(a.Sort), Sort: a.Sort, T: a.T}
	}
	if a.Sort == "Any" {
		return a, fx.boxTerm(b)
	}
	if b.Sort == "Any" {
		return fx.boxTerm(a), b
	}
	panic(subsetError{fmt.Sprintf("cannot compare %s : %s with %s : %s", a.S, a.Sort, b.S, b.Sort)})
}

func (fx *FuncExec) evalCond(st *State, e ast.Expr) string {
	t := fx.eval(st, e)
	if t.Sort != "Bool" {
		fx.unsupported(e.Pos(), "condition of sort %s", t.Sort)
	}
	return t.S
}

func (fx *FuncExec) wrapInt(v Term, t types.Type) Term {
	if t == nil {
		return v
	}
	if b, ok := t.Underlying().(*types.Basic); ok {
		switch b.Kind() {
		case types.Int32:
			return Term{S: "(wrap32 " + v.S + ")", Sort: "Int", T: t}
		case types.Uint8:
			return Term{S: "(wrap8 " + v.S + ")", Sort: "Int", T: t}
		case types.Uint, types.Uint64:
			return Term{S: "(wrapu " + v.S + ")", Sort: "Int", T: t}
		}
	}
	v.T = t
	return v
}

func (fx *FuncExec) eval(st *State, e ast.Expr) Term {
	if tv, ok := fx.info.Types[e]; ok && tv.Value != nil {
		return fx.constTerm(tv.Value, tv.Type)
	}
	switch e := e.(type) {
	case *ast.ParenExpr:
		return fx.eval(st, e.X)
	case *ast.Ident:
		return fx.evalIdent(st, e)
	case *ast.BasicLit:
		fx.unsupported(e.Pos(), "literal %s", e.Value)
	case *ast.FuncLit:
		fx.litOrd++
		key := fmt.Sprintf("%s$%d", fx.rootKey(), fx.ctx.litIndex[e])
		c := fx.fresh("closure", "Fn")
		fx.reg.declFun("fn_code", "(declare-fun fn_code (Fn) Int)")
		id := fx.ctx.litCode(key)
		st.assume(and(eq("(fn_code "+c+")", fmt.Sprint(id)), not(eq(c, "fn_nil"))))
		// captured values at creation time
		if li := fx.ctx.funcs[key]; li != nil {
			for _, v := range fx.freeVars(e) {
				if cur, ok := st.vars[varKey(v)]; ok {
					uf := "cap_" + sanitize(key) + "_" + v.Name()
					vs := fx.varSort[varKey(v)]
					val := cur
					if fx.boxed[v] {
						// captured by reference: the cell
					}
					fx.reg.declFun(uf, fmt.Sprintf("(declare-fun %s (Fn) %s)", uf, vs))
					st.assume(eq("("+uf+" "+c+")", val))
				}
			}
		}
		return Term{S: c, Sort: "Fn", T: fx.typeOf(e)}
	case *ast.CompositeLit:
		return fx.evalComposite(st, e, false)
	case *ast.UnaryExpr:
		switch e.Op {
		case token.NOT:
			return Term{S: not(fx.evalCond(st, e.X)), Sort: "Bool", T: types.Typ[types.Bool]}
		case token.SUB:
			v := fx.eval(st, e.X)
			return fx.wrapInt(Term{S: "(- " + v.S + ")", Sort: "Int"}, fx.typeOf(e))
		case token.ADD:
			return fx.eval(st, e.X)
		case token.AND:
			switch x := e.X.(type) {
			case *ast.CompositeLit:
				return fx.evalComposite(st, x, true)
			case *ast.Ident:
				v, ok := fx.info.Uses[x].(*types.Var)
				if !ok {
					fx.unsupported(e.Pos(), "address of %s", x.Name)
				}
				if si := fx.structValInfo(v.Type()); si != nil {
					return Term{S: st.vars[varKey(v)], Sort: si.Sort, T: fx.typeOf(e)}
				}
				if fx.boxed[v] {
					pi := fx.reg.ptrOf(types.NewPointer(v.Type()))
					return Term{S: st.vars[varKey(v)], Sort: pi.Sort, T: fx.typeOf(e)}
				}
			}
			fx.unsupported(e.Pos(), "address-of expression %s", exprString(e))
		}
		fx.unsupported(e.Pos(), "unary %s", e.Op)
	case *ast.StarExpr:
		p := fx.eval(st, e.X)
		fx.nilCheck(st, p, e.Pos(), "deref")
		if pi := fx.ptrInfoBySort(p.Sort); pi != nil {
			return Term{S: sel(fx.H(st, pi.Comp), p.S), Sort: fx.reg.SortOf(pi.Elem), T: pi.Elem}
		}
		return Term{S: p.S, Sort: p.Sort, T: fx.typeOf(e)} // struct value designated by its ref (not fresh)
	case *ast.BinaryExpr:
		return fx.evalBinary(st, e)
	case *ast.CallExpr:
		rs := fx.evalCall(st, e)
		if len(rs) != 1 {
			fx.unsupported(e.Pos(), "call with %d results in single-value context", len(rs))
		}
		return rs[0]
	case *ast.SelectorExpr:
		if sel := fx.info.Selections[e]; sel != nil {
			switch sel.Kind() {
			case types.FieldVal:
				base := fx.eval(st, e.X)
				fx.nilCheck(st, base, e.Pos(), "field")
				t := fx.fieldRead(st, base, e.Sel.Name, func(m string) { fx.unsupported(e.Pos(), "%s", m) })
				return t
			case types.MethodVal:
				// method value (not called): mv_<method>(receiver), a function of the receiver
				if fn, ok := sel.Obj().(*types.Func); ok {
					recv := fx.eval(st, e.X)
					name := "mv_" + sanitize(funcKeyOf(fn))
					fx.reg.declFun(name, fmt.Sprintf("(declare-fun %s (%s) Fn)", name, recv.Sort))
					st.assume(not(eq("("+name+" "+recv.S+")", "fn_nil")))
					return Term{S: "(" + name + " " + recv.S + ")", Sort: "Fn", T: fx.typeOf(e)}
				}
				return Term{S: fx.fresh("methodval", "Fn"), Sort: "Fn", T: fx.typeOf(e)}
			}
		}
		// qualified identifier
		if obj := fx.info.Uses[e.Sel]; obj != nil {
			switch o := obj.(type) {
			case *types.Var:
				return fx.pkgVar(o)
			case *types.Func:
				return fx.funcValue(o)
			}
		}
		fx.unsupported(e.Pos(), "selector %s", exprString(e))
	case *ast.IndexExpr:
		bt := fx.typeOf(e.X)
		base := fx.eval(st, e.X)
		switch u := bt.Underlying().(type) {
		case *types.Map:
			mi := fx.reg.mapOf(u)
			k := fx.evalTo(st, e.Index, u.Key())
			// reading a nil map or an absent key yields the zero value: maps are
			// kept closed (absent keys hold the zero value), see recordGoodHeap
			fx.H(st, mi.Dom)
			val := sel(sel(fx.H(st, mi.Val), base.S), k.S)
			return Term{S: val, Sort: mi.V, T: u.Elem()}
		case *types.Slice, *types.Array:
			i := fx.eval(st, e.Index)
			fx.oblige(st, "panic/index", "", and("(<= 0 "+i.S+")", "(< "+i.S+" (slen "+base.S+"))"), "index in range: "+trunc(exprString(e), 60), e.Pos())
			et := sliceElemType(bt)
			comp := fx.reg.sliceComp(et)
			return Term{S: sel(sel(fx.H(st, comp), "(sref "+base.S+")"), "(sidx (soff "+base.S+") "+i.S+")"), Sort: fx.reg.SortOf(et), T: et}
		}
		fx.unsupported(e.Pos(), "index of %s", bt)
	case *ast.SliceExpr:
		base := fx.eval(st, e.X)
		if base.Sort != "Slice" {
			if base.Sort == "Str" {
				// string slicing: uninterpreted
				fx.reg.declFun("str_slice", "(declare-fun str_slice (Str Int Int) Str)")
				lo, hi := "0", "(- 1)"
				if e.Low != nil {
					lo = fx.eval(st, e.Low).S
				}
				if e.High != nil {
					hi = fx.eval(st, e.High).S
				}
				return Term{S: "(str_slice " + base.S + " " + lo + " " + hi + ")", Sort: "Str", T: fx.typeOf(e)}
			}
			fx.unsupported(e.Pos(), "slice of %s", base.Sort)
		}
		lo, hi := "0", "(slen "+base.S+")"
		if e.Low != nil {
			lo = fx.eval(st, e.Low).S
		}
		if e.High != nil {
			hi = fx.eval(st, e.High).S
		}
		// capacity is not modelled: high bound is checked against len (stricter than Go's cap rule)
		fx.oblige(st, "panic/slice", "", and("(<= 0 "+lo+")", "(<= "+lo+" "+hi+")", "(<= "+hi+" (slen "+base.S+"))"), "slice bounds in range: "+trunc(exprString(e), 60), e.Pos())
		return Term{S: "(mk_slice (sref " + base.S + ") (+ (soff " + base.S + ") " + lo + ") (- " + hi + " " + lo + "))", Sort: "Slice", T: fx.typeOf(e)}
	case *ast.TypeAssertExpr:
		v := fx.eval(st, e.X)
		t := fx.typeOf(e.Type)
		fx.oblige(st, "panic/typeassert", "", fx.typeTest(v, t, exprString(e.Type)), "type assertion holds: "+trunc(exprString(e), 60), e.Pos())
		if types.IsInterface(t) {
			return Term{S: v.S, Sort: "Any", T: t}
		}
		return fx.unboxTerm(v, t)
	case *ast.KeyValueExpr:
		fx.unsupported(e.Pos(), "key-value outside literal")
	}
	fx.unsupported(e.Pos(), "expression %T", e)
	return Term{}
}

func (fx *FuncExec) nilCheck(st *State, p Term, pos token.Pos, what string) {
	if !fx.reg.isRefSort(p.Sort) {
		return
	}
	// struct-valued locals are never nil
	fx.oblige(st, "panic/nil", what, not(eq(p.S, "null_"+p.Sort)), "non-nil pointer: "+trunc(p.S, 40), pos)
}

func (fx *FuncExec) rootKey() string {
	fi := fx.fi
	for fi.Parent != nil {
		fi = fi.Parent
	}
	return fi.Key
}

func (fx *FuncExec) funcValue(f *types.Func) Term {
	name := "fnval_" + sanitize(funcKeyOf(f))
	fx.reg.declFun(name, fmt.Sprintf("(declare-const %s Fn)", name))
	return Term{S: name, Sort: "Fn", T: f.Type()}
}

func (fx *FuncExec) evalIdent(st *State, e *ast.Ident) Term {
	if e.Name == "_" {
		fx.unsupported(e.Pos(), "blank identifier read")
	}
	obj := fx.info.Uses[e]
	if obj == nil {
		obj = fx.info.Defs[e]
	}
	switch o := obj.(type) {
	case *types.Nil:
		return Term{S: "nil", Sort: nilSort}
	case *types.Var:
		if o.Pkg() != nil && o.Parent() == o.Pkg().Scope() {
			return fx.pkgVar(o)
		}
		return fx.readVar(st, o)
	case *types.Func:
		return fx.funcValue(o)
	case *types.Const:
		return fx.constTerm(o.Val(), o.Type())
	}
	fx.unsupported(e.Pos(), "identifier %s (%T)", e.Name, obj)
	return Term{}
}

func (fx *FuncExec) evalBinary(st *State, e *ast.BinaryExpr) Term {
	switch e.Op {
	case token.LAND, token.LOR:
		l := fx.evalCond(st, e.X)
		g := l
		if e.Op == token.LOR {
			g = not(l)
		}
		st.guards = append(st.guards, g)
		r := fx.evalCond(st, e.Y)
		st.guards = st.guards[:len(st.guards)-1]
		if e.Op == token.LAND {
			return Term{S: and(l, r), Sort: "Bool", T: types.Typ[types.Bool]}
		}
		return Term{S: or(l, r), Sort: "Bool", T: types.Typ[types.Bool]}
	}
	a := fx.eval(st, e.X)
	b := fx.eval(st, e.Y)
	switch e.Op {
	case token.EQL, token.NEQ:
		// comparing interface with concrete value boxes the concrete one
		if a.Sort != nilSort && b.Sort != nilSort {
			at, bt := fx.typeOf(e.X), fx.typeOf(e.Y)
			if at != nil && bt != nil {
				if types.IsInterface(at) && !types.IsInterface(bt) {
					b = fx.boxTerm(b)
				} else if types.IsInterface(bt) && !types.IsInterface(at) {
					a = fx.boxTerm(a)
				}
			}
		}
		a, b = fx.unifyTerms(st, a, b)
		if a.Sort == "Slice" {
			// only comparison with nil is legal in Go
			s := eq("(sref "+a.S+")", "(sref "+b.S+")")
			if e.Op == token.NEQ {
				s = not(s)
			}
			return Term{S: s, Sort: "Bool", T: types.Typ[types.Bool]}
		}
		s := eq(a.S, b.S)
		if e.Op == token.NEQ {
			s = not(s)
		}
		return Term{S: s, Sort: "Bool", T: types.Typ[types.Bool]}
	case token.LSS, token.LEQ, token.GTR, token.GEQ:
		op := map[token.Token]string{token.LSS: "<", token.LEQ: "<=", token.GTR: ">", token.GEQ: ">="}[e.Op]
		if a.Sort == "Str" {
			fx.reg.declFun("str_lt", "(declare-fun str_lt (Str Str) Bool)")
			fx.unsupported(e.Pos(), "string ordering")
		}
		return Term{S: "(" + op + " " + a.S + " " + b.S + ")", Sort: "Bool", T: types.Typ[types.Bool]}
	case token.ADD:
		if a.Sort == "Str" {
			return Term{S: "(str_concat " + a.S + " " + b.S + ")", Sort: "Str", T: fx.typeOf(e)}
		}
		return fx.wrapInt(Term{S: "(+ " + a.S + " " + b.S + ")", Sort: "Int"}, fx.typeOf(e))
	case token.SUB:
		return fx.wrapInt(Term{S: "(- " + a.S + " " + b.S + ")", Sort: "Int"}, fx.typeOf(e))
	case token.MUL:
		return fx.wrapInt(Term{S: "(* " + a.S + " " + b.S + ")", Sort: "Int"}, fx.typeOf(e))
	case token.QUO:
		fx.oblige(st, "panic/divzero", "", not(eq(b.S, "0")), "divisor non-zero", e.Pos())
		// Go truncates toward zero; for non-negative operands this equals div
		return fx.wrapInt(Term{S: "(ite (>= " + a.S + " 0) (div " + a.S + " " + b.S + ") (- (div (- " + a.S + ") " + b.S + ")))", Sort: "Int"}, fx.typeOf(e))
	case token.REM:
		fx.oblige(st, "panic/divzero", "", not(eq(b.S, "0")), "divisor non-zero", e.Pos())
		return fx.wrapInt(Term{S: "(ite (>= " + a.S + " 0) (mod " + a.S + " " + b.S + ") (- (mod (- " + a.S + ") " + b.S + ")))", Sort: "Int"}, fx.typeOf(e))
	}
	fx.unsupported(e.Pos(), "binary operator %s", e.Op)
	return Term{}
}

func (fx *FuncExec) evalComposite(st *State, e *ast.CompositeLit, addr bool) Term {
	t := fx.typeOf(e)
	switch u := t.Underlying().(type) {
	case *types.Struct:
		if _, named := types.Unalias(t).(*types.Named); u.NumFields() == 0 && !named {
			return Term{S: "unit", Sort: "Unit", T: t}
		}
		si := fx.structValInfo(t)
		if si == nil {
			fx.unsupported(e.Pos(), "composite literal of opaque struct %s", t)
		}
		// evaluate field values first
		type fv struct {
			name string
			val  Term
		}
		var fvs []fv
		for i, el := range e.Elts {
			if kv, ok := el.(*ast.KeyValueExpr); ok {
				name := kv.Key.(*ast.Ident).Name
				fvs = append(fvs, fv{name, fx.evalTo(st, kv.Value, si.FieldT[name])})
			} else {
				name := si.Fields[i]
				fvs = append(fvs, fv{name, fx.evalTo(st, el, si.FieldT[name])})
			}
		}
		given := map[string]bool{}
		for _, f := range fvs {
			given[f.name] = true
		}
		r := fx.allocStruct(st, si, given)
		for _, f := range fvs {
			comp := si.Comp[f.name]
			if fx.reg.imm[comp] {
				fx.immFact(r, eq("(imm_"+comp+" "+r+")", f.val.S))
				continue
			}
			if sub := fx.structValInfo(si.FieldT[f.name]); sub != nil {
				saved := fx.initCopy
				fx.initCopy = true
				fx.copyInto(st, sel(fx.H(st, comp), r), f.val.S, sub, true)
				fx.initCopy = saved
				continue
			}
			fx.setHq(st, comp, store(fx.H(st, comp), r, f.val.S))
		}
		rt := t
		if addr {
			rt = types.NewPointer(t)
		}
		return Term{S: r, Sort: si.Sort, T: rt, Fresh: true}
	case *types.Slice:
		comp := fx.reg.sliceComp(u.Elem())
		ref := fx.alloc(st, "SRef", "lit")
		arr := sel(fx.H(st, comp), ref)
		for i, el := range e.Elts {
			if _, ok := el.(*ast.KeyValueExpr); ok {
				fx.unsupported(e.Pos(), "keyed slice literal")
			}
			v := fx.evalLitElem(st, el, u.Elem())
			arr = store(arr, fmt.Sprint(i), v.S)
		}
		fx.setHq(st, comp, store(fx.H(st, comp), ref, arr))
		return Term{S: fmt.Sprintf("(mk_slice %s 0 %d)", ref, len(e.Elts)), Sort: "Slice", T: t, Fresh: true}
	case *types.Map:
		mi := fx.reg.mapOf(u)
		m := fx.alloc(st, mi.Sort, "maplit")
		dom := "((as const (Array " + mi.K + " Bool)) false)"
		val := fx.reg.ZeroArr(mi.K, mi.V)
		for _, el := range e.Elts {
			kv := el.(*ast.KeyValueExpr)
			k := fx.evalTo(st, kv.Key, u.Key())
			v := fx.evalLitElem(st, kv.Value, u.Elem())
			dom = store(dom, k.S, "true")
			val = store(val, k.S, v.S)
		}
		fx.setHq(st, mi.Dom, store(fx.H(st, mi.Dom), m, dom))
		fx.setHq(st, mi.Val, store(fx.H(st, mi.Val), m, val))
		return Term{S: m, Sort: mi.Sort, T: t, Fresh: true}
	}
	fx.unsupported(e.Pos(), "composite literal of %s", t)
	return Term{}
}

func (fx *FuncExec) evalLitElem(st *State, el ast.Expr, et types.Type) Term {
	if cl, ok := el.(*ast.CompositeLit); ok && cl.Type == nil {
		// elided type
		_, isPtr := et.Underlying().(*types.Pointer)
		return fx.evalComposite(st, cl, isPtr)
	}
	v := fx.evalTo(st, el, et)
	if si := fx.structValInfo(et); si != nil && !v.Fresh {
		v.S = fx.copyStruct(st, v.S, si, true)
	}
	return v
}

// evalMulti evaluates an expression that yields several values.
func (fx *FuncExec) evalMulti(st *State, e ast.Expr) []Term {
	switch e := e.(type) {
	case *ast.ParenExpr:
		return fx.evalMulti(st, e.X)
	case *ast.CallExpr:
		return fx.evalCall(st, e)
	case *ast.IndexExpr: // v, ok := m[k]
		bt := fx.typeOf(e.X)
		if u, ok := bt.Underlying().(*types.Map); ok {
			base := fx.eval(st, e.X)
			mi := fx.reg.mapOf(u)
			k := fx.evalTo(st, e.Index, u.Key())
			has := sel(sel(fx.H(st, mi.Dom), base.S), k.S)
			val := sel(sel(fx.H(st, mi.Val), base.S), k.S)
			return []Term{{S: val, Sort: mi.V, T: u.Elem()}, {S: has, Sort: "Bool", T: types.Typ[types.Bool]}}
		}
	case *ast.TypeAssertExpr: // v, ok := x.(T)
		v := fx.eval(st, e.X)
		t := fx.typeOf(e.Type)
		ok := fx.typeTest(v, t, exprString(e.Type))
		if types.IsInterface(t) {
			return []Term{{S: ite(ok, v.S, "nil_Any"), Sort: "Any", T: t}, {S: ok, Sort: "Bool", T: types.Typ[types.Bool]}}
		}
		ub := fx.unboxTerm(v, t)
		return []Term{{S: ite(ok, ub.S, fx.reg.Zero(ub.Sort)), Sort: ub.Sort, T: t}, {S: ok, Sort: "Bool", T: types.Typ[types.Bool]}}
	}
	fx.unsupported(e.Pos(), "multi-value expression %T", e)
	return nil
}

// ---------------------------------------------------------------- assignment

func (fx *FuncExec) execAssign(st *State, s *ast.AssignStmt) {
	if s.Tok != token.ASSIGN && s.Tok != token.DEFINE {
		// op-assign
		op := map[token.Token]token.Token{token.ADD_ASSIGN: token.ADD, token.SUB_ASSIGN: token.SUB, token.MUL_ASSIGN: token.MUL, token.QUO_ASSIGN: token.QUO, token.REM_ASSIGN: token.REM}[s.Tok]
		if op == 0 {
			fx.unsupported(s.Pos(), "assignment operator %s", s.Tok)
		}
		cur := fx.eval(st, s.Lhs[0])
		rhs := fx.eval(st, s.Rhs[0])
		var val Term
		switch {
		case cur.Sort == "Str" && op == token.ADD:
			val = Term{S: "(str_concat " + cur.S + " " + rhs.S + ")", Sort: "Str", T: cur.T}
		default:
			o := map[token.Token]string{token.ADD: "+", token.SUB: "-", token.MUL: "*"}[op]
			if o == "" {
				fx.unsupported(s.Pos(), "assignment operator %s", s.Tok)
			}
			val = fx.wrapInt(Term{S: "(" + o + " " + cur.S + " " + rhs.S + ")", Sort: "Int"}, cur.T)
		}
		fx.assignTo(st, s.Lhs[0], val)
		return
	}
	var vals []Term
	if len(s.Rhs) == 1 && len(s.Lhs) > 1 {
		vals = fx.evalMulti(st, s.Rhs[0])
	} else {
		for i, r := range s.Rhs {
			var lt types.Type
			if id, ok := s.Lhs[i].(*ast.Ident); ok && id.Name == "_" {
				lt = nil
			} else if s.Tok == token.DEFINE {
				if id, ok := s.Lhs[i].(*ast.Ident); ok {
					if d := fx.info.Defs[id]; d != nil {
						lt = d.Type()
					} else {
						lt = fx.typeOf(s.Lhs[i])
					}
				}
			} else {
				lt = fx.typeOf(s.Lhs[i])
			}
			v := fx.eval(st, r)
			if lt != nil {
				v = fx.convert(st, v, lt)
			}
			vals = append(vals, v)
		}
	}
	for i, l := range s.Lhs {
		if id, ok := l.(*ast.Ident); ok {
			if id.Name == "_" {
				continue
			}
			if s.Tok == token.DEFINE {
				if v, ok := fx.info.Defs[id].(*types.Var); ok {
					fx.defineVar(st, v, vals[i])
					continue
				}
			}
		}
		fx.assignTo(st, l, vals[i])
	}
}

func (fx *FuncExec) storeVar(st *State, v *types.Var, val Term) {
	val = fx.convert(st, val, v.Type())
	k := varKey(v)
	if _, ok := st.vars[k]; !ok {
		panic(subsetError{"assignment to unknown variable " + v.Name()})
	}
	if fx.captured[v] {
		fx.capWrite = append(fx.capWrite, v.Name())
	}
	if fx.boxed[v] {
		pi := fx.reg.ptrOf(types.NewPointer(v.Type()))
		fx.setH(st, pi.Comp, store(fx.H(st, pi.Comp), st.vars[k], val.S))
		return
	}
	if si := fx.structValInfo(v.Type()); si != nil {
		if !fx.captured[v] && !fx.addrTaken[v] && st.guard() == "true" {
			// a struct variable whose address is never taken cannot be aliased: assigning
			// to it rebinds the variable to a fresh copy (no in-place write, so immutable
			// fields of the previous value are not touched)
			if val.Fresh {
				st.vars[k] = val.S
			} else {
				st.vars[k] = fx.copyStruct(st, val.S, si, true)
			}
			return
		}
		fx.copyInto(st, st.vars[k], val.S, si, false)
		return
	}
	g := st.guard()
	if g != "true" {
		val.S = ite(g, val.S, st.vars[k])
	}
	c := fx.fresh(v.Name(), fx.varSort[k])
	st.pc = append(st.pc, eq(c, val.S))
	st.vars[k] = c
}

func (fx *FuncExec) assignTo(st *State, lhs ast.Expr, val Term) {
	switch l := lhs.(type) {
	case *ast.ParenExpr:
		fx.assignTo(st, l.X, val)
	case *ast.Ident:
		if l.Name == "_" {
			return
		}
		v, ok := fx.info.Uses[l].(*types.Var)
		if !ok {
			if d, ok2 := fx.info.Defs[l].(*types.Var); ok2 {
				v = d
			} else {
				fx.unsupported(l.Pos(), "assignment to %s", l.Name)
			}
		}
		if v.Pkg() != nil && v.Parent() == v.Pkg().Scope() {
			fx.unsupported(l.Pos(), "assignment to package variable %s", l.Name)
		}
		fx.storeVar(st, v, val)
	case *ast.SelectorExpr:
		base := fx.eval(st, l.X)
		fx.nilCheck(st, base, l.Pos(), "field-store")
		si, ok := fx.reg.structs[base.Sort]
		if !ok {
			fx.unsupported(l.Pos(), "field store on %s", base.Sort)
		}
		fx.storeField(st, si, base.S, l.Sel.Name, val, l.Pos())
	case *ast.IndexExpr:
		bt := fx.typeOf(l.X)
		base := fx.eval(st, l.X)
		switch u := bt.Underlying().(type) {
		case *types.Map:
			mi := fx.reg.mapOf(u)
			k := fx.evalTo(st, l.Index, u.Key())
			val = fx.convert(st, val, u.Elem())
			if si := fx.structValInfo(u.Elem()); si != nil && !val.Fresh {
				val.S = fx.copyStruct(st, val.S, si, true)
			}
			fx.oblige(st, "panic/nilmap", "", not(eq(base.S, "null_"+mi.Sort)), "store into non-nil map: "+trunc(exprString(l), 60), l.Pos())
			fx.mapStore(st, mi, base.S, k.S, val.S)
		case *types.Slice:
			i := fx.eval(st, l.Index)
			val = fx.convert(st, val, u.Elem())
			fx.oblige(st, "panic/index", "", and("(<= 0 "+i.S+")", "(< "+i.S+" (slen "+base.S+"))"), "index in range: "+trunc(exprString(l), 60), l.Pos())
			comp := fx.reg.sliceComp(u.Elem())
			ref := "(sref " + base.S + ")"
			fx.frameWrite(st, comp, ref, l.Pos())
			fx.setH(st, comp, store(fx.H(st, comp), ref, store(sel(fx.H(st, comp), ref), "(+ (soff "+base.S+") "+i.S+")", val.S)))
		default:
			fx.unsupported(l.Pos(), "index store on %s", bt)
		}
	case *ast.StarExpr:
		p := fx.eval(st, l.X)
		fx.nilCheck(st, p, l.Pos(), "store")
		if pi := fx.ptrInfoBySort(p.Sort); pi != nil {
			val = fx.convert(st, val, pi.Elem)
			fx.frameWrite(st, pi.Comp, p.S, l.Pos())
			fx.setH(st, pi.Comp, store(fx.H(st, pi.Comp), p.S, val.S))
			return
		}
		if si, ok := fx.reg.structs[p.Sort]; ok {
			fx.copyInto(st, p.S, val.S, si, false)
			return
		}
		fx.unsupported(l.Pos(), "store through %s", p.Sort)
	default:
		fx.unsupported(lhs.Pos(), "assignment target %T", lhs)
	}
}

func (fx *FuncExec) storeField(st *State, si *StructInfo, ref, field string, val Term, pos token.Pos) {
	if comp, ok := si.Comp[field]; ok {
		ft := si.FieldT[field]
		val = fx.convert(st, val, ft)
		if fx.reg.imm[comp] {
			fx.oblige(st, "immutable-write", field, eq("(imm_"+comp+" "+ref+")", val.S), "write to immutable field "+field+" keeps its value", pos)
			return
		}
		if sub := fx.structValInfo(ft); sub != nil {
			fx.copyInto(st, sel(fx.H(st, comp), ref), val.S, sub, false)
			return
		}
		fx.frameWrite(st, comp, ref, pos)
		fx.setH(st, comp, store(fx.H(st, comp), ref, val.S))
		return
	}
	for _, f := range si.Fields {
		if sub := fx.structValInfo(si.FieldT[f]); sub != nil {
			if fx.hasField(sub, field) {
				fx.storeField(st, sub, sel(fx.H(st, si.Comp[f]), ref), field, val, pos)
				return
			}
		}
	}
	fx.unsupported(pos, "no field %s in %s", field, si.Name)
}

func (fx *FuncExec) hasField(si *StructInfo, field string) bool {
	if _, ok := si.Comp[field]; ok {
		return true
	}
	for _, f := range si.Fields {
		if sub := fx.structValInfo(si.FieldT[f]); sub != nil && fx.hasField(sub, field) {
			return true
		}
	}
	return false
}

func (fx *FuncExec) mapStore(st *State, mi *MapInfo, m, k, v string) {
	fx.frameWrite(st, mi.Dom, m, fx.curPos)
	fx.setH(st, mi.Dom, store(fx.H(st, mi.Dom), m, store(sel(fx.H(st, mi.Dom), m), k, "true")))
	fx.setH(st, mi.Val, store(fx.H(st, mi.Val), m, store(sel(fx.H(st, mi.Val), m), k, v)))
}

func (fx *FuncExec) mapDelete(st *State, mi *MapInfo, m, k string) {
	// delete on a nil map is a no-op; dom[null] is empty and stays empty
	cond := not(eq(m, "null_"+mi.Sort))
	st.guards = append(st.guards, cond)
	fx.frameWrite(st, mi.Dom, m, fx.curPos)
	st.guards = st.guards[:len(st.guards)-1]
	fx.setH(st, mi.Dom, ite(cond, store(fx.H(st, mi.Dom), m, store(sel(fx.H(st, mi.Dom), m), k, "false")), fx.H(st, mi.Dom)))
	fx.setH(st, mi.Val, ite(cond, store(fx.H(st, mi.Val), m, store(sel(fx.H(st, mi.Val), m), k, fx.reg.Zero(mi.V))), fx.H(st, mi.Val)))
}

var _ = strings.TrimSpace

package main

// exec_run.go — setting up and running the symbolic execution of one function.

import (
	"fmt"
	"go/ast"
	"go/token"
	"go/types"
	"strings"
)

func (fx *FuncExec) h0(comp string) string {
	n := "H0_" + comp
	if !fx.reg.declared["fx:"+fx.fi.Key+":"+n] {
		fx.reg.declared["fx:"+fx.fi.Key+":"+n] = true
		fx.decls = append(fx.decls, fmt.Sprintf("(declare-const %s %s)", n, fx.reg.compSort[comp]))
	}
	return n
}

func (fx *FuncExec) initHeap(st *State) {
	for _, c := range fx.reg.comps {
		st.vars[c] = fx.h0(c)
	}
	fx.recordGoodHeap(st, fx.reg.comps)
}

func (fx *FuncExec) declareVar(st *State, v *types.Var, val string) {
	k := varKey(v)
	srt := fx.reg.SortOf(v.Type())
	if fx.boxed[v] {
		pi := fx.reg.ptrOf(types.NewPointer(v.Type()))
		ref := fx.alloc(st, pi.Sort, v.Name())
		fx.setHq(st, pi.Comp, store(fx.H(st, pi.Comp), ref, val))
		fx.varSort[k] = pi.Sort
		fx.varType[k] = v.Type()
		st.vars[k] = ref
		return
	}
	fx.varSort[k] = srt
	fx.varType[k] = v.Type()
	st.vars[k] = val
}

// paramFacts: typing facts about a value of Go type t held in term s.
func (fx *FuncExec) typingFacts(st *State, s string, t types.Type) []string {
	srt := fx.reg.SortOf(t)
	var fs []string
	switch {
	case srt == "Slice":
		fs = append(fs, "(>= (slen "+s+") 0)", "(>= (soff "+s+") 0)",
			or(eq("(sref "+s+")", "null_SRef"), sel(fx.H(st, "AL_SRef"), "(sref "+s+")")),
			imp(eq("(sref "+s+")", "null_SRef"), eq("(slen "+s+")", "0")))
	case fx.reg.isRefSort(srt):
		al := fx.reg.allocOf[srt]
		fs = append(fs, or(eq(s, "null_"+srt), sel(fx.H(st, al), s)))
	}
	if b, ok := t.Underlying().(*types.Basic); ok {
		switch b.Kind() {
		case types.Int32:
			fs = append(fs, "(<= (- 2147483648) "+s+")", "(<= "+s+" 2147483647)")
		case types.Uint8:
			fs = append(fs, "(<= 0 "+s+")", "(<= "+s+" 255)")
		case types.Uint, types.Uint64, types.Uint32, types.Uint16, types.Uintptr:
			fs = append(fs, "(<= 0 "+s+")")
		}
	}
	return fs
}

func (fx *FuncExec) run() {
	fi := fx.fi
	st := NewState()
	fx.initHeap(st)
	sig := fi.Sig

	if fx.contract != nil {
		for _, ac := range fx.contract.After {
			ac.Used = false
		}
	}
	// pre-scan: address-taken locals, captured variables
	fx.prescan(fi.Body)

	// captured variables (for literals): treated as extra parameters
	if fi.Lit != nil {
		// self: the function value being executed (for contracts that speak about the closure itself)
		self := fx.fresh("self", "Fn")
		st.assume(eq("(fn_code "+self+")", fmt.Sprint(fx.ctx.litCode(fi.Key))))
		st.assume(not(eq(self, "fn_nil")))
		fx.selfTerm = self
		for _, v := range fx.freeVars(fi.Lit) {
			c := fx.fresh("cap_"+v.Name(), fx.reg.SortOf(v.Type()))
			fx.captured[v] = true
			fx.varSort[varKey(v)] = fx.reg.SortOf(v.Type())
			fx.varType[varKey(v)] = v.Type()
			st.vars[varKey(v)] = c
			for _, f := range fx.typingFacts(st, c, v.Type()) {
				st.assume(f)
			}
			uf := "cap_" + sanitize(fi.Key) + "_" + v.Name()
			vs := fx.reg.SortOf(v.Type())
			fx.reg.declFun(uf, fmt.Sprintf("(declare-fun %s (Fn) %s)", uf, vs))
			st.assume(eq("("+uf+" "+self+")", c))
		}
	}
	bind := func(v *types.Var, hint string) {
		if v == nil || v.Name() == "_" || v.Name() == "" {
			return
		}
		srt := fx.reg.SortOf(v.Type())
		c := fx.fresh(hint+v.Name(), srt)
		for _, f := range fx.typingFacts(st, c, v.Type()) {
			st.assume(f)
		}
		if si := fx.structValInfo(v.Type()); si != nil {
			st.assume(and(not(eq(c, "null_"+si.Sort)), sel(fx.H(st, si.Alloc), c)))
		}
		fx.declareVar(st, v, c)
		fx.params = append(fx.params, v)
	}
	if sig.Recv() != nil {
		bind(sig.Recv(), "p_")
		if _, isPtr := sig.Recv().Type().(*types.Pointer); isPtr && sig.Recv().Name() != "_" && sig.Recv().Name() != "" {
			rs := fx.reg.SortOf(sig.Recv().Type())
			st.assume(not(eq(st.vars[varKey(sig.Recv())], "null_"+rs)))
		}
	}
	for i := 0; i < sig.Params().Len(); i++ {
		bind(sig.Params().At(i), "p_")
	}
	// results
	for i := 0; i < sig.Results().Len(); i++ {
		rv := sig.Results().At(i)
		srt := fx.reg.SortOf(rv.Type())
		if rv.Name() != "" && rv.Name() != "_" {
			zero := fx.reg.Zero(srt)
			if si := fx.structValInfo(rv.Type()); si != nil {
				zero = fx.allocStruct(st, si)
			}
			fx.declareVar(st, rv, zero)
			fx.resKeys = append(fx.resKeys, varKey(rv))
			fx.resNames = append(fx.resNames, rv.Name())
		} else {
			k := fmt.Sprintf("R:%d", i)
			fx.varSort[k] = srt
			fx.varType[k] = rv.Type()
			st.vars[k] = fx.reg.Zero(srt)
			fx.resKeys = append(fx.resKeys, k)
			name := fmt.Sprintf("result%d", i)
			if sig.Results().Len() == 1 {
				name = "result"
			}
			fx.resNames = append(fx.resNames, name)
		}
	}
	fx.entry = st.clone()

	// requires
	c := fx.contract
	if c != nil {
		for i, r := range c.Requires {
			env := fx.specEnv(st, fx.entry, fx.bodyPos(), "requires")
			tag := fmt.Sprintf("req.%d", i+1)
			if r.Label != "" {
				tag = "req." + r.Label
			}
			fx.assumeTagged(st, env.Bool(r.Expr), tag)
		}
		fx.entry = st.clone()
	}
	if c != nil && c.HasModifies {
		fx.modSet = fx.modTerms(c, func() *SpecEnv { return fx.specEnv(fx.entry, fx.entry, fx.bodyPos(), "modifies") })
		// struct values passed by value are the callee's own copies
		for i := 0; i < sig.Params().Len(); i++ {
			pv := sig.Params().At(i)
			if si := fx.structValInfo(pv.Type()); si != nil && pv.Name() != "" && pv.Name() != "_" {
				fx.modSet[si.Sort] = append(fx.modSet[si.Sort], fx.entry.vars[varKey(pv)])
			}
		}
		// named struct results are objects of this call
		for i := 0; i < sig.Results().Len(); i++ {
			rv := sig.Results().At(i)
			if si := fx.structValInfo(rv.Type()); si != nil && rv.Name() != "" && rv.Name() != "_" {
				if v, ok := fx.entry.vars[varKey(rv)]; ok {
					fx.modSet[si.Sort] = append(fx.modSet[si.Sort], v)
				}
			}
		}
	}
	// vacuity check: the entry assumptions must be satisfiable
	vo := fx.oblige(st, "vacuity", "entry-satisfiable", "true", "requires are satisfiable", fi.Body.Pos())
	vo.Expect = "sat"

	end := fx.execBlock(st, fi.Body.List)
	if end != nil {
		if sig.Results().Len() > 0 {
			// falling off the end of a function with results is impossible in Go (compile error) unless it panics
		}
		fx.rets = append(fx.rets, end)
	}
	// Postconditions are checked per return path (smaller queries than on the
	// merged state); the reachability canary and the assigns check use the merge.
	var retStates []*State
	for _, r := range fx.rets {
		if r != nil {
			retStates = append(retStates, r.clone())
		}
	}
	final := fx.mergeStates(fx.rets)
	if final == nil {
		fx.notes = append(fx.notes, "no normal return path")
		return
	}
	co := fx.oblige(final, "canary", "end-reachable", "true", "function end is reachable", fi.Body.End())
	co.Expect = "sat"
	if c != nil {
		for _, en := range c.Ensures {
			if en.Free {
				continue
			}
			fx.counters["ensures"]++
			k := fx.counters["ensures"]
			dup := 0
			if en.Label != "" {
				fx.counters["ensures/"+en.Label]++
				dup = fx.counters["ensures/"+en.Label]
			}
			for ri, rs := range retStates {
				env := fx.specEnv(rs, fx.entry, fx.bodyPos(), "ensures")
				// a postcondition speaks to the caller, who knows the arguments it
				// passed: parameter names denote their entry values, also when the
				// body reassigns them
				for _, pv := range fx.params {
					if _, ok := fx.entry.vars[varKey(pv)]; ok {
						env.bound[pv.Name()] = fx.readVar(fx.entry, pv)
					}
				}
				fx.bindResults(env, rs)
				g := env.Bool(en.Expr)
				name := fmt.Sprintf("%s/ensures#%d", fx.fi.Key, k)
				if en.Label != "" {
					name = fmt.Sprintf("%s/ensures/%s", fx.fi.Key, en.Label)
					if dup > 1 {
						name += fmt.Sprintf("~%d", dup)
					}
				}
				if len(retStates) > 1 {
					name += fmt.Sprintf("@ret%d", ri+1)
				}
				o := &Obligation{Name: name, Func: fx.fi.Key, Kind: "ensures", Label: en.Label, Pos: fx.posStr(fi.Body.End()), Goal: en.Text,
					PC: append([]string(nil), rs.pc...), Neg: g, Expect: "unsat", Using: en.Using, fx: fx}
				fx.obls = append(fx.obls, o)
			}
		}
		if c.HasAssigns {
			fx.checkAssigns(final)
		}
	}
}

func (fx *FuncExec) bodyPos() token.Pos {
	// a position inside the function's outermost scope, after parameters
	return fx.fi.Body.Lbrace + 1
}

func (fx *FuncExec) bindResults(env *SpecEnv, st *State) {
	for i, k := range fx.resKeys {
		t := Term{S: st.vars[k], Sort: fx.varSort[k], T: fx.varType[k]}
		if v, ok := st.vars[k]; ok {
			t.S = v
		}
		env.bound[fx.resNames[i]] = t
		if len(fx.resKeys) == 1 {
			env.bound["result"] = t
		}
	}
}

// compsOf resolves an assigns designator to heap component names.
func (fx *FuncExec) compsOf(d string, pkg *types.Package) []string {
	d = strings.TrimSpace(d)
	if d == "*" || d == "everything" {
		return append([]string(nil), fx.reg.comps...)
	}
	if _, ok := fx.reg.compSort[d]; ok {
		return []string{d}
	}
	if c, ok := fx.reg.ghostVars[d]; ok {
		return []string{c}
	}
	// a type? (pkg.Type, Type, map[..].., []..)
	if cs := fx.compsOfType(d, pkg); cs != nil {
		return cs
	}
	// Struct.field
	if i := strings.LastIndex(d, "."); i > 0 && !strings.ContainsAny(d, "[]*") {
		sname, f := d[:i], d[i+1:]
		// possibly pkg-qualified
		if j := strings.LastIndex(sname, "."); j >= 0 {
			sname = sname[j+1:]
		}
		for _, si := range fx.reg.structs {
			if si.Name == sname || strings.HasSuffix(si.Name, "_"+sname) {
				if c, ok := si.Comp[f]; ok {
					return []string{c}
				}
			}
		}
		panic(specError{"assigns: unknown field " + d})
	}
	srt, t := fx.typeFromString(d, pkg)
	if mi, ok := fx.reg.maps[srt]; ok {
		return []string{mi.Dom, mi.Val}
	}
	if srt == "Slice" && t != nil {
		return []string{fx.reg.sliceComp(sliceElemType(t))}
	}
	if pi, ok := fx.reg.ptrs[srt]; ok {
		return []string{pi.Comp}
	}
	if si, ok := fx.reg.structs[srt]; ok {
		var cs []string
		for _, f := range si.Fields {
			cs = append(cs, si.Comp[f])
		}
		return cs
	}
	panic(specError{"assigns: cannot resolve " + d})
}

func (fx *FuncExec) compsOfType(d string, pkg *types.Package) (out []string) {
	defer func() {
		if r := recover(); r != nil {
			out = nil
		}
	}()
	srt, t := fx.typeFromString(d, pkg)
	if mi, ok := fx.reg.maps[srt]; ok {
		return []string{mi.Dom, mi.Val}
	}
	if srt == "Slice" && t != nil {
		return []string{fx.reg.sliceComp(sliceElemType(t))}
	}
	if pi, ok := fx.reg.ptrs[srt]; ok {
		return []string{pi.Comp}
	}
	if si, ok := fx.reg.structs[srt]; ok {
		var cs []string
		for _, f := range si.Fields {
			cs = append(cs, si.Comp[f])
		}
		for _, f := range si.GhostF {
			cs = append(cs, si.Comp[f])
		}
		return cs
	}
	return nil
}

func (fx *FuncExec) assignsComps(c *Contract, pkg *types.Package) map[string]bool {
	m := map[string]bool{}
	for _, d := range c.Assigns {
		for _, comp := range fx.compsOf(d, pkg) {
			m[comp] = true
			// objects of the component's key sort may be allocated by the callee
			ks, _ := arraySorts(fx.reg.compSort[comp])
			if al, ok := fx.reg.allocOf[ks]; ok {
				m[al] = true
			}
		}
		// a struct type without fields still has an allocation component
		func() {
			defer func() { recover() }()
			if srt, _ := fx.typeFromString(d, pkg); fx.reg.allocOf[srt] != "" {
				m[fx.reg.allocOf[srt]] = true
			}
		}()
	}
	return m
}

// checkAssigns: every heap component written by the body (or by callees) must be declared.
func (fx *FuncExec) checkAssigns(final *State) {
	allowed := fx.assignsComps(fx.contract, fx.pkg.Types)
	var bad []string
	for _, w := range sortedKeys(fx.writes) {
		if !allowed[w] {
			bad = append(bad, w)
		}
	}
	goal := "true"
	if len(bad) > 0 {
		goal = "false"
	}
	o := fx.oblige(final, "assigns", "frame", goal, "writes ⊆ assigns; undeclared: ["+strings.Join(bad, " ")+"]", fx.fi.Body.End())
	o.PC = nil
}

// prescan finds address-taken non-struct locals.
func (fx *FuncExec) prescan(body *ast.BlockStmt) {
	ast.Inspect(body, func(n ast.Node) bool {
		switch n := n.(type) {
		case *ast.UnaryExpr:
			if n.Op == token.AND {
				if id, ok := n.X.(*ast.Ident); ok {
					if v, ok := fx.info.Uses[id].(*types.Var); ok && !v.IsField() {
						if fx.structValInfo(v.Type()) == nil {
							fx.boxed[v] = true
						} else {
							fx.addrTaken[v] = true
						}
					}
				}
			}
		case *ast.CallExpr:
			// method call with pointer receiver on an addressable non-struct local
			if se, ok := n.Fun.(*ast.SelectorExpr); ok {
				if sel := fx.info.Selections[se]; sel != nil && sel.Kind() == types.MethodVal {
					if f, ok := sel.Obj().(*types.Func); ok {
						if recv := f.Type().(*types.Signature).Recv(); recv != nil {
							if _, isPtr := recv.Type().(*types.Pointer); isPtr {
								if id, ok := se.X.(*ast.Ident); ok {
									if v, ok := fx.info.Uses[id].(*types.Var); ok && !v.IsField() {
										if _, vp := v.Type().Underlying().(*types.Pointer); !vp && fx.structValInfo(v.Type()) == nil {
											fx.boxed[v] = true
										} else if !vp {
											fx.addrTaken[v] = true
										}
									}
								}
							}
						}
					}
				}
			}
		}
		return true
	})
}

func (fx *FuncExec) freeVars(lit *ast.FuncLit) []*types.Var {
	seen := map[*types.Var]bool{}
	var out []*types.Var
	ast.Inspect(lit.Body, func(n ast.Node) bool {
		id, ok := n.(*ast.Ident)
		if !ok {
			return true
		}
		v, ok := fx.info.Uses[id].(*types.Var)
		if !ok || v.IsField() || v.Pkg() == nil {
			return true
		}
		if v.Parent() == v.Pkg().Scope() {
			return true
		}
		if v.Pos() >= lit.Pos() && v.Pos() <= lit.End() {
			return true
		}
		if !seen[v] {
			seen[v] = true
			out = append(out, v)
		}
		return true
	})
	return out
}

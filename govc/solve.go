package main

// solve.go — discharging SMT scripts: three solvers raced, results cached.

import (
	"context"
	"sync/atomic"
	"crypto/sha256"
	"encoding/hex"
	"encoding/json"
	"fmt"
	"os"
	"os/exec"
	"path/filepath"
	"strings"
	"sync"
	"time"
)

type SolveResult struct {
	Status string  `json:"status"` // unsat | sat | unknown | timeout | error
	Solver string  `json:"solver"`
	TimeS  float64 `json:"time_s"`
	Output string  `json:"output,omitempty"`
	Model  string  `json:"model,omitempty"`
	Cached bool    `json:"cached,omitempty"`
}

type solverDef struct {
	name string
	args func(file string, timeoutS int) []string
}

var solvers = []solverDef{
	{"z3-new", func(f string, t int) []string { return []string{"z3-new", fmt.Sprintf("-T:%d", t), "-smt2", f} }},
	{"z3", func(f string, t int) []string { return []string{"z3", fmt.Sprintf("-T:%d", t), "-smt2", f} }},
	// the same solver with another seed and eager instantiation: quantifier-heavy
	// goals are seed-sensitive, a second configuration makes the race more stable
	{"z3-new/eager", func(f string, t int) []string {
		return []string{"z3-new", "smt.random_seed=42", "smt.qi.eager_threshold=2", fmt.Sprintf("-T:%d", t), "-smt2", f}
	}},
	{"cvc5", func(f string, t int) []string {
		return []string{"cvc5", fmt.Sprintf("--tlimit=%d", t*1000), "--full-saturate-quant", f}
	}},
}

const solverVersions = "z3-new=5.1.0;z3=4.8.12;cvc5=1.0.3;v4"

var fileSeq int64
var cacheDir = ""
var noCache = os.Getenv("VERIF_NOCACHE") == "1"
var scratchDir = ""

var scratchMu sync.Mutex

func scratch() string {
	scratchMu.Lock()
	defer scratchMu.Unlock()
	if scratchDir == "" {
		d, err := os.MkdirTemp("", "govc-")
		if err != nil {
			panic(err)
		}
		scratchDir = d
	}
	return scratchDir
}

func cleanupScratch() {
	if scratchDir != "" {
		os.RemoveAll(scratchDir)
	}
}

func runSolver(ctx context.Context, sd solverDef, file string, timeoutS int) (status, output string) {
	args := sd.args(file, timeoutS)
	cmd := exec.CommandContext(ctx, args[0], args[1:]...)
	out, _ := cmd.CombinedOutput()
	s := strings.TrimSpace(string(out))
	first := s
	if i := strings.Index(s, "\n"); i >= 0 {
		first = s[:i]
	}
	first = strings.TrimSpace(first)
	switch first {
	case "unsat", "sat", "unknown", "timeout":
		return first, s
	}
	if ctx.Err() != nil {
		return "cancelled", s
	}
	if strings.Contains(s, "timeout") || strings.Contains(s, "interrupted") {
		return "timeout", s
	}
	return "error", s
}

// Solve races the solvers on a script. expect is "unsat" or "sat": the race
// stops at the first definitive answer.
func Solve(script string, timeoutS int, which []string) SolveResult {
	h := sha256.Sum256([]byte(solverVersions + "\n" + strings.Join(which, ",") + "\n" + script))
	key := hex.EncodeToString(h[:])
	if cacheDir != "" && !noCache {
		if data, err := os.ReadFile(filepath.Join(cacheDir, key+".json")); err == nil {
			var r SolveResult
			if json.Unmarshal(data, &r) == nil && (r.Status == "unsat" || r.Status == "sat") {
				r.Cached = true
				return r
			}
		}
	}
	file := filepath.Join(scratch(), fmt.Sprintf("%s-%d.smt2", key[:24], atomic.AddInt64(&fileSeq, 1)))
	if err := os.WriteFile(file, []byte(script), 0o644); err != nil {
		return SolveResult{Status: "error", Output: err.Error()}
	}
	defer os.Remove(file)
	ctx, cancel := context.WithTimeout(context.Background(), time.Duration(timeoutS+2)*time.Second)
	defer cancel()
	type ans struct {
		status, out, solver string
		t           float64
	}
	ch := make(chan ans, len(solvers))
	var wg sync.WaitGroup
	start := time.Now()
	n := 0
	for _, sd := range solvers {
		if len(which) > 0 && !contains(which, sd.name) {
			continue
		}
		n++
		wg.Add(1)
		go func(sd solverDef) {
			defer wg.Done()
			s, o := runSolver(ctx, sd, file, timeoutS)
			ch <- ans{s, o, sd.name, time.Since(start).Seconds()}
		}(sd)
	}
	res := SolveResult{Status: "unknown"}
	var outs []string
	for i := 0; i < n; i++ {
		a := <-ch
		if a.status == "unsat" || a.status == "sat" {
			res = SolveResult{Status: a.status, Solver: a.solver, TimeS: a.t}
			if a.status == "sat" {
				res.Output = a.out
			}
			cancel()
			break
		}
		outs = append(outs, a.solver+": "+a.status+" "+trunc(a.out, 200))
		if a.status == "timeout" && res.Status == "unknown" {
			res.Status = "timeout"
		}
	}
	go func() { wg.Wait() }()
	if res.Status != "unsat" && res.Status != "sat" {
		res.TimeS = time.Since(start).Seconds()
		res.Output = strings.Join(outs, " | ")
	}
	if cacheDir != "" && (res.Status == "unsat" || res.Status == "sat") {
		os.MkdirAll(cacheDir, 0o755)
		data, _ := json.Marshal(res)
		os.WriteFile(filepath.Join(cacheDir, key+".json"), data, 0o644)
	}
	return res
}

func contains(xs []string, x string) bool {
	for _, y := range xs {
		if y == x {
			return true
		}
	}
	return false
}

// GetModel asks one solver for a model of a satisfiable script.
func GetModel(script, solver string, timeoutS int) string {
	file := filepath.Join(scratch(), fmt.Sprintf("model-%d.smt2", time.Now().UnixNano()))
	os.WriteFile(file, []byte(script+"(get-model)\n"), 0o644)
	defer os.Remove(file)
	ctx, cancel := context.WithTimeout(context.Background(), time.Duration(timeoutS+2)*time.Second)
	defer cancel()
	for _, sd := range solvers {
		if sd.name == solver {
			_, out := runSolver(ctx, sd, file, timeoutS)
			return out
		}
	}
	return ""
}

// SolveCanary checks that a script is not refutable within a short budget
// (one solver). "not refutable" outcomes are cached too: the key is the script.
func SolveCanary(script string, timeoutS int) SolveResult {
	h := sha256.Sum256([]byte(solverVersions + "\ncanary\n" + script))
	key := hex.EncodeToString(h[:])
	if cacheDir != "" && !noCache {
		if data, err := os.ReadFile(filepath.Join(cacheDir, key+".json")); err == nil {
			var r SolveResult
			if json.Unmarshal(data, &r) == nil && r.Status != "" {
				r.Cached = true
				return r
			}
		}
	}
	r := Solve(script, timeoutS, []string{"z3-new"})
	if cacheDir != "" && r.Status != "error" {
		os.MkdirAll(cacheDir, 0o755)
		data, _ := json.Marshal(r)
		os.WriteFile(filepath.Join(cacheDir, key+".json"), data, 0o644)
	}
	return r
}

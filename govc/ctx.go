package main

// ctx.go — loading /repo, collecting functions, running the generator.

import (
	"runtime/debug"
	"fmt"
	"go/ast"
	"go/token"
	"go/types"
	"os"
	"path/filepath"
	"sort"
	"strings"

	"golang.org/x/tools/go/packages"
)

type Ctx struct {
	fset     *token.FileSet
	pkgs     []*packages.Package
	allPkgs  map[string]*packages.Package
	reg      *Registry
	spec     *SpecFile
	funcs    map[string]*FuncInfo
	order    []string
	litIndex map[*ast.FuncLit]int
	litCodes map[string]int
	repo     string
	specPkg  map[*Contract]string
	results  map[string]*FuncResult
}

type FuncResult struct {
	Key         string
	Obls        []*Obligation
	Uncontr     []string
	Notes       []string
	Error       string // out-of-subset or spec error
	CapWrites   []string
	HasContract bool
}

func (c *Ctx) pkgByName(name string) *types.Package {
	for _, p := range c.allPkgs {
		if p.Types != nil && p.Types.Name() == name {
			// prefer loaded root packages
			for _, r := range c.pkgs {
				if r.Types.Name() == name {
					return r.Types
				}
			}
			return p.Types
		}
	}
	return nil
}

func (c *Ctx) pkgByPath(path string) *types.Package {
	if p, ok := c.allPkgs[path]; ok {
		return p.Types
	}
	for _, p := range c.pkgs {
		if p.PkgPath == path {
			return p.Types
		}
	}
	return c.pkgs[0].Types
}

func (c *Ctx) contractPkg(ct *Contract, def *types.Package) *types.Package {
	if pp, ok := c.specPkg[ct]; ok {
		if p := c.pkgByPath(pp); p != nil {
			return p
		}
	}
	return def
}

func (c *Ctx) litCode(key string) int {
	if n, ok := c.litCodes[key]; ok {
		return n
	}
	n := len(c.litCodes) + 1
	c.litCodes[key] = n
	return n
}

func Load(repo string, extraSpecs []string) (*Ctx, error) {
	fset := token.NewFileSet()
	cfg := &packages.Config{
		Mode: packages.NeedName | packages.NeedSyntax | packages.NeedTypes | packages.NeedTypesInfo | packages.NeedFiles | packages.NeedImports | packages.NeedDeps | packages.NeedCompiledGoFiles,
		Dir:  repo, BuildFlags: []string{"-tags=verif"}, Fset: fset,
		Env: append(os.Environ(), "GOFLAGS=-mod=mod", "GOPROXY=off", "GOSUMDB=off", "GOTOOLCHAIN=local"),
	}
	pkgs, err := packages.Load(cfg, "./...")
	if err != nil {
		return nil, err
	}
	ctx := &Ctx{fset: fset, pkgs: pkgs, allPkgs: map[string]*packages.Package{}, reg: NewRegistry(), spec: NewSpecFile(),
		funcs: map[string]*FuncInfo{}, litIndex: map[*ast.FuncLit]int{}, litCodes: map[string]int{}, repo: repo,
		specPkg: map[*Contract]string{}, results: map[string]*FuncResult{}}
	sort.Slice(pkgs, func(i, j int) bool { return pkgs[i].PkgPath > pkgs[j].PkgPath }) // graph before argmapper? (internal/graph sorts after) -> reversed
	packages.Visit(pkgs, nil, func(p *packages.Package) { ctx.allPkgs[p.PkgPath] = p })
	for _, p := range pkgs {
		if len(p.Errors) > 0 {
			return nil, fmt.Errorf("package %s: %v", p.PkgPath, p.Errors[0])
		}
	}
	// spec files: verif_contracts*.go in each package dir + extra spec files
	for _, p := range pkgs {
		dir := ""
		if len(p.GoFiles) > 0 {
			dir = filepath.Dir(p.GoFiles[0])
		}
		matches, _ := filepath.Glob(filepath.Join(dir, "verif_contracts*.go"))
		sort.Strings(matches)
		for _, m := range matches {
			before := map[string]bool{}
			for k := range ctx.spec.Contracts {
				before[k] = true
			}
			if err := ParseSpecFile(m, p.Types.Name(), p.PkgPath, ctx.spec); err != nil {
				return nil, err
			}
			for k, ct := range ctx.spec.Contracts {
				if !before[k] {
					ctx.specPkg[ct] = p.PkgPath
				}
			}
		}
	}
	for _, m := range extraSpecs {
		// the package context of an extra spec file is given by its first line: //@@ package <path>
		data, err := os.ReadFile(m)
		if err != nil {
			return nil, err
		}
		pp := pkgs[len(pkgs)-1].PkgPath
		for _, ln := range strings.Split(string(data), "\n") {
			if strings.HasPrefix(ln, "//@@ package ") {
				pp = strings.TrimSpace(strings.TrimPrefix(ln, "//@@ package "))
				break
			}
		}
		tp := ctx.pkgByPath(pp)
		before := map[string]bool{}
		for k := range ctx.spec.Contracts {
			before[k] = true
		}
		if err := ParseSpecFile(m, tp.Name(), pp, ctx.spec); err != nil {
			return nil, err
		}
		for k, ct := range ctx.spec.Contracts {
			if !before[k] {
				ctx.specPkg[ct] = pp
			}
		}
	}
	for k, v := range ctx.spec.Opaque {
		ctx.reg.opaque[k] = v
	}
	// collect functions
	for _, p := range pkgs {
		for _, f := range p.Syntax {
			for _, d := range f.Decls {
				fd, ok := d.(*ast.FuncDecl)
				if !ok || fd.Body == nil {
					continue
				}
				obj := p.TypesInfo.Defs[fd.Name].(*types.Func)
				fi := &FuncInfo{Key: funcKeyOf(obj), Pkg: p, Decl: fd, Obj: obj, Sig: obj.Type().(*types.Signature), Body: fd.Body}
				ctx.funcs[fi.Key] = fi
				ctx.order = append(ctx.order, fi.Key)
				n := 0
				var stack []*FuncInfo
				stack = append(stack, fi)
				var walk func(node ast.Node, parent *FuncInfo)
				walk = func(node ast.Node, parent *FuncInfo) {
					ast.Inspect(node, func(x ast.Node) bool {
						lit, ok := x.(*ast.FuncLit)
						if !ok {
							return true
						}
						n++
						ctx.litIndex[lit] = n
						li := &FuncInfo{Key: fmt.Sprintf("%s$%d", fi.Key, n), Pkg: p, Lit: lit, Sig: p.TypesInfo.Types[lit].Type.(*types.Signature), Parent: parent, Body: lit.Body}
						ctx.funcs[li.Key] = li
						ctx.order = append(ctx.order, li.Key)
						walk(lit.Body, li)
						return false
					})
				}
				walk(fd.Body, fi)
			}
		}
	}
	// pre-register all types so that heap components are known up front
	// (in a deterministic order: scripts must be reproducible for the cache)
	for _, p := range pkgs {
		seen := map[string]types.Type{}
		for _, tv := range p.TypesInfo.Types {
			if tv.Type != nil {
				seen[types.TypeString(tv.Type, nil)] = tv.Type
			}
		}
		for _, o := range p.TypesInfo.Defs {
			if o != nil && o.Type() != nil {
				seen[types.TypeString(o.Type(), nil)] = o.Type()
			}
		}
		keys := make([]string, 0, len(seen))
		for k := range seen {
			keys = append(keys, k)
		}
		sort.Strings(keys)
		for _, k := range keys {
			safeSort(ctx.reg, seen[k])
		}
	}
	if err := ctx.InstallAxioms(); err != nil {
		return nil, err
	}
	return ctx, nil
}

func safeSort(r *Registry, t types.Type) {
	defer func() { recover() }()
	if _, ok := t.(*types.Tuple); ok {
		return
	}
	r.SortOf(t)
}

// RunFunc generates the obligations of one function.
func (c *Ctx) RunFunc(key string) *FuncResult {
	if r, ok := c.results[key]; ok {
		return r
	}
	fi := c.funcs[key]
	res := &FuncResult{Key: key}
	c.results[key] = res
	if fi == nil {
		res.Error = "no such function"
		return res
	}
	fx := &FuncExec{ctx: c, reg: c.reg, pkg: fi.Pkg, info: fi.Pkg.TypesInfo, fi: fi, contract: c.spec.Contracts[key],
		varSort: map[string]string{}, varType: map[string]types.Type{}, counters: map[string]int{}, boxed: map[*types.Var]bool{}, addrTaken: map[*types.Var]bool{},
		captured: map[*types.Var]bool{}, used: map[string]bool{}, uncontr: map[string]bool{}, writes: map[string]bool{}, ghostVar: map[string]string{}, forced: -1}
	res.HasContract = fx.contract != nil
	if fx.contract != nil {
		fx.contract.Used = true
	}
	func() {
		defer func() {
			if r := recover(); r != nil {
				switch e := r.(type) {
				case subsetError:
					res.Error = "out-of-subset: " + e.msg
				case specError:
					res.Error = "spec-error: " + e.msg
					if os.Getenv("VERIF_TRACE") != "" {
						fmt.Fprintf(os.Stderr, "%s\n%s\n", e.msg, debug.Stack())
					}
				default:
					panic(r)
				}
			}
		}()
		fx.run()
	}()
	res.Obls = fx.obls
	res.Uncontr = sortedKeys(fx.uncontr)
	res.Notes = fx.notes
	res.CapWrites = fx.capWrite
	return res
}

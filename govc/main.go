package main

import (
	"crypto/sha256"
	"encoding/hex"
	"flag"
	"fmt"
	"os"
	"path/filepath"
	"regexp"
	"sort"
	"strings"
	"sync"
)

var noRetry = false

type Discharged struct {
	O *Obligation
	R SolveResult
}

// OK: proof obligations need unsat; canaries (Expect "sat") must merely not be
// refutable: a solver proving the assumptions inconsistent is the failure.
func (d Discharged) OK() bool {
	if d.O.Expect == "sat" {
		return d.R.Status != "unsat" && d.R.Status != "error"
	}
	return d.R.Status == d.O.Expect
}

// dischargeAll runs the solvers on a set of obligations, in parallel.
func dischargeAll(ctx *Ctx, obls []*Obligation, timeoutS, par int, dump string) []Discharged {
	pre := ""
	out := make([]Discharged, len(obls))
	var wg sync.WaitGroup
	sem := make(chan struct{}, par)
	for i, o := range obls {
		wg.Add(1)
		sem <- struct{}{}
		go func(i int, o *Obligation) {
			defer wg.Done()
			defer func() { <-sem }()
			if o.Kind == "assigns" {
				st := "unsat"
				if o.Neg != "true" {
					st = "sat"
				}
				out[i] = Discharged{o, SolveResult{Status: st, Solver: "syntactic"}}
				return
			}
			if o.Expect == "unsat" && o.Neg != "" {
				// conjuncts of the goal that are literally among the assumptions
				// (up to renaming of bound variables) need no solver
				have := map[string]bool{}
				for _, p := range o.PC {
					have[alphaNorm(p)] = true
				}
				var rest []string
				for _, c := range splitAnd(o.Neg) {
					if c != "true" && !have[alphaNorm(c)] {
						rest = append(rest, c)
					}
				}
				if len(rest) == 0 {
					out[i] = Discharged{o, SolveResult{Status: "unsat", Solver: "syntactic"}}
					return
				}
				o.Neg = and(rest...)
			}
			script := o.Render(pre)
			if dump != "" {
				os.MkdirAll(dump, 0o755)
				os.WriteFile(filepath.Join(dump, sanitize(o.Name)+".smt2"), []byte(script), 0o644)
			}
			if o.Expect == "sat" {
				// vacuity / reachability canary: must not be refutable within a short budget
				out[i] = Discharged{o, SolveCanary(script, 2)}
				return
			}
			// first try with the assumptions near the goal only (sound: fewer assumptions), then with all
			if len(o.PC) >= 40 {
				solved := false
				seenLen := map[int]bool{len(script): true}
				type att struct {
					d    int
					hide bool
				}
				atts := []att{{-1, true}, {1, true}, {0, true}, {1, false}, {2, false}, {4, false}}
				if len(o.Using) > 0 {
					atts = append([]att{{-2, true}}, atts...)
				}
				// advisory cache: which attempt discharged this very script last time
				advKey := advisoryKey(script)
				if won := advisoryGet(advKey); won != "" {
					if won == "full" {
						atts = nil
					} else {
						for k, a := range atts {
							if attTag(a.d, a.hide) == won {
								atts = append([]att{a}, append(append([]att(nil), atts[:k]...), atts[k+1:]...)...)
								break
							}
						}
					}
				}
				for _, a := range atts {
					small := o.RenderOpts(a.d, a.hide)
					if seenLen[len(small)] || (!a.hide && len(small) >= len(script)*9/10) {
						continue
					}
					seenLen[len(small)] = true
					tag := attTag(a.d, a.hide)
					if dump != "" {
						os.WriteFile(filepath.Join(dump, fmt.Sprintf("%s.%s.smt2", sanitize(o.Name), tag)), []byte(small), 0o644)
					}
					if r := Solve(small, minInt(timeoutS, 4), []string{"z3-new", "z3-new/eager", "cvc5"}); r.Status == "unsat" {
						r.Solver += "(" + tag + ")"
						out[i] = Discharged{o, r}
						solved = true
						advisoryPut(advKey, tag)
						break
					}
				}
				if solved {
					return
				}
				r := Solve(script, timeoutS, nil)
				if r.Status == "unsat" {
					advisoryPut(advKey, "full")
				}
				out[i] = Discharged{o, r}
				return
			}
			out[i] = Discharged{o, Solve(script, timeoutS, nil)}
		}(i, o)
	}
	wg.Wait()
	return out
}

func cmdProve(args []string) int {
	fs := flag.NewFlagSet("prove", flag.ExitOnError)
	pat := fs.String("f", "", "regexp on function keys (default: all functions with a contract)")
	opat := fs.String("o", "", "regexp on obligation names")
	timeout := fs.Int("timeout", 10, "per-obligation timeout (s)")
	par := fs.Int("j", 6, "parallel obligations")
	dump := fs.String("dump", "", "dump scripts to directory")
	repo := fs.String("repo", "/repo", "repository")
	verbose := fs.Bool("v", false, "list every obligation")
	fs.Parse(args)
	ctx, err := Load(*repo, specFiles())
	if err != nil {
		fmt.Fprintln(os.Stderr, "load:", err)
		return 2
	}
	var re, ore *regexp.Regexp
	if *pat != "" {
		re = regexp.MustCompile(*pat)
	}
	if *opat != "" {
		ore = regexp.MustCompile(*opat)
	}
	var obls []*Obligation
	for _, k := range ctx.order {
		if re != nil {
			if !re.MatchString(k) {
				continue
			}
		} else if ctx.spec.Contracts[k] == nil || ctx.spec.Contracts[k].Trusted {
			continue
		}
		r := ctx.RunFunc(k)
		if r.Error != "" {
			fmt.Printf("FUNC %-50s %s\n", k, r.Error)
		}
		if len(r.Uncontr) > 0 {
			fmt.Printf("FUNC %-50s uncontracted callees: %s\n", k, strings.Join(r.Uncontr, ", "))
		}
		for _, o := range r.Obls {
			if ore == nil || ore.MatchString(o.Name) {
				obls = append(obls, o)
			}
		}
	}
	ds := dischargeAll(ctx, obls, *timeout, *par, *dump)
	ok, bad := 0, 0
	for _, d := range ds {
		if d.OK() {
			ok++
			if *verbose {
				fmt.Printf("ok   %-70s %-8s %.2fs\n", d.O.Name, d.R.Solver, d.R.TimeS)
			}
		} else {
			bad++
			fmt.Printf("FAIL %-70s %s (%s, %.2fs) @%s\n     goal: %s\n     solvers: %s\n", d.O.Name, d.R.Status, d.R.Solver, d.R.TimeS, d.O.Pos, trunc(d.O.Goal, 160), trunc(d.R.Output, 400))
		}
	}
	fmt.Printf("obligations=%d discharged=%d failed=%d\n", len(ds), ok, bad)
	if bad > 0 {
		return 1
	}
	return 0
}

func specFiles() []string {
	dir := os.Getenv("VERIF_SPECDIR")
	if dir == "" {
		exe, _ := os.Executable()
		dir = filepath.Join(filepath.Dir(filepath.Dir(exe)), "contracts")
	}
	ms, _ := filepath.Glob(filepath.Join(dir, "*.spec"))
	sort.Strings(ms)
	return ms
}

func main() {
	defer cleanupScratch()
	if len(os.Args) < 2 {
		fmt.Fprintln(os.Stderr, "usage: govc prove|check ...")
		os.Exit(2)
	}
	if d := os.Getenv("VERIF_CACHE"); d != "" {
		cacheDir = d
	}
	code := 2
	switch os.Args[1] {
	case "prove":
		code = cmdProve(os.Args[2:])
	case "check":
		code = cmdCheck(os.Args[2:])
	default:
		fmt.Fprintln(os.Stderr, "unknown command", os.Args[1])
	}
	cleanupScratch()
	os.Exit(code)
}

// retryUndecided gives obligations the parallel pass did not decide a second
// chance with little CPU contention and another random seed: a solver
// time-out under load is not evidence. Bounded: at most max obligations.
func retryUndecided(out []Discharged, timeoutS, max int) {
	var wg sync.WaitGroup
	sem := make(chan struct{}, 4)
	n := 0
	for i, d := range out {
		if d.OK() || d.O.Kind == "assigns" || d.O.Expect == "sat" || d.R.Status == "sat" {
			continue
		}
		if n >= max {
			break
		}
		n++
		wg.Add(1)
		sem <- struct{}{}
		go func(i int) {
			defer wg.Done()
			defer func() { <-sem }()
			o := out[i].O
			script := o.Render("")
			r := Solve("(set-option :smt.random_seed 7)\n"+script, timeoutS, []string{"z3-new", "z3"})
			if r.Status != "unsat" {
				r = Solve(script, timeoutS*2, nil)
			}
			if r.Status == "unsat" || r.Status == "sat" {
				r.Solver += "(retry)"
				out[i] = Discharged{o, r}
			}
		}(i)
	}
	wg.Wait()
}

var boundVarRe = regexp.MustCompile(`[A-Za-z_][A-Za-z_0-9]*!q[0-9]+`)

// alphaNorm renames bound variables (name!qN) by order of first occurrence.
func alphaNorm(f string) string {
	if !strings.Contains(f, "!q") {
		return f
	}
	m := map[string]string{}
	return boundVarRe.ReplaceAllStringFunc(f, func(v string) string {
		if r, ok := m[v]; ok {
			return r
		}
		r := fmt.Sprintf("b!%d", len(m))
		m[v] = r
		return r
	})
}

func attTag(d int, hide bool) string {
	tag := fmt.Sprintf("near%d", d)
	if d == -1 {
		tag = "fam"
	}
	if d == -2 {
		tag = "using"
	}
	if hide {
		tag += "h"
	}
	return tag
}

// The advisory cache only orders the attempts (which reduced script to try
// first); every result still comes from a solver run or the result cache.
func advisoryKey(script string) string {
	h := sha256.Sum256([]byte(solverVersions + "\nadv\n" + script))
	return hex.EncodeToString(h[:])
}

func advisoryGet(key string) string {
	if cacheDir == "" || noCache {
		return ""
	}
	b, err := os.ReadFile(filepath.Join(cacheDir, key+".adv"))
	if err != nil {
		return ""
	}
	return strings.TrimSpace(string(b))
}

func advisoryPut(key, tag string) {
	if cacheDir == "" || noCache {
		return
	}
	os.MkdirAll(cacheDir, 0o755)
	os.WriteFile(filepath.Join(cacheDir, key+".adv"), []byte(tag), 0o644)
}

func minInt(a, b int) int {
	if a < b {
		return a
	}
	return b
}

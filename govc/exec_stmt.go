package main

// exec_stmt.go — symbolic execution of statements.

import (
	"fmt"
	"go/parser"
	"go/printer"
	"sort"
	"go/ast"
	"go/token"
	"go/types"
	"strconv"
	"strings"
)

func (fx *FuncExec) execBlock(st *State, list []ast.Stmt) *State {
	for idx, s := range list {
		if st == nil {
			return nil
		}
		if ifs, ok := s.(*ast.IfStmt); ok && fx.contract != nil && fx.contract.SplitPaths && fx.loopDepth == 0 && len(fx.loops) == 0 && idx+1 < len(list) {
			// follow each branch to the end of the block separately (no merge)
			fx.curPos = ifs.Pos()
			var ends []*State
			for _, o := range fx.execIfBranches(st, ifs) {
				if o != nil {
					ends = append(ends, fx.execBlock(o, list[idx+1:]))
				}
			}
			return fx.mergeStates(ends)
		}
		if ifs, ok := s.(*ast.IfStmt); ok && fx.contract != nil && fx.contract.TailSplit && fx.loopDepth == 0 && len(fx.loops) == 0 && len(list) == len(fx.fi.Body.List) && &list[0] == &fx.fi.Body.List[0] && onlyReturns(list[idx+1:]) {
			fx.curPos = ifs.Pos()
			var ends []*State
			for _, o := range fx.execIfBranches(st, ifs) {
				if o != nil {
					ends = append(ends, fx.execBlock(o, list[idx+1:]))
				}
			}
			return fx.mergeStates(ends)
		}
		if fx.contract != nil && len(fx.contract.After) > 0 {
			fx.ghostAfter(st, s, true)
		}
		st = fx.exec(st, s)
		if st != nil && fx.contract != nil && len(fx.contract.After) > 0 {
			fx.ghostAfter(st, s, false)
		}
	}
	return st
}

// ghostAfter executes the ghost assignments attached to statement s.
func (fx *FuncExec) ghostAfter(st *State, s ast.Stmt, before bool) {
	var txt string
	firedHere := map[string]bool{} // an identical clause written n times attaches to the first n matching statements
	for _, ac := range fx.contract.After {
		if ac.Used || ac.Before != before {
			continue
		}
		if txt == "" {
			var b strings.Builder
			printer.Fprint(&b, fx.ctx.fset, s)
			txt = strings.Join(strings.Fields(b.String()), " ")
		}
		if !strings.HasPrefix(txt, strings.Join(strings.Fields(ac.Match), " ")) {
			continue
		}
		// clauses of one group (same statement prefix, same ghost variable or same
		// label up to a trailing number) attach to successive matching statements
		fk := fmt.Sprintf("%s|%v|%s|%s", ac.Match, ac.Assert, ac.Var, strings.TrimRight(ac.Label, "0123456789"))
		if ac.Label == "" && ac.Assert {
			fk += "|" + ac.Text
		}
		if firedHere[fk] {
			continue
		}
		firedHere[fk] = true
		ac.Used = true
		if ac.Assert {
			pos := s.End()
			if before {
				pos = s.Pos()
			}
			env := fx.specEnv(st, fx.entry, pos, "ghost assert")
			g := env.Bool(ac.Expr)
			fx.oblige(st, "assert", ac.Label, g, ac.Text, pos).Using = ac.Using
			fx.assumeTagged(st, g, "assert."+ac.Label)
			continue
		}
		if dot := strings.LastIndex(ac.Var, "."); dot > 0 {
			// ghost field assignment: base.field = expr
			pos := s.End()
			if before {
				pos = s.Pos()
			}
			env := fx.specEnv(st, fx.entry, pos, "ghost assignment")
			be, err := parser.ParseExpr(ac.Var[:dot])
			if err != nil {
				panic(specError{"after: bad ghost field target " + ac.Var})
			}
			base := env.tr(be)
			si := fx.reg.structs[base.Sort]
			if si == nil || si.Comp[ac.Var[dot+1:]] == "" {
				panic(specError{"after: unknown ghost field " + ac.Var})
			}
			comp := si.Comp[ac.Var[dot+1:]]
			v := env.tr(ac.Expr)
			fx.setH(st, comp, store(fx.H(st, comp), base.S, v.S))
			continue
		}
		comp, ok := fx.reg.ghostVars[ac.Var]
		if !ok {
			panic(specError{"after: unknown ghost variable " + ac.Var})
		}
		pos := s.End()
		if before {
			pos = s.Pos()
		}
		env := fx.specEnv(st, fx.entry, pos, "ghost assignment")
		v := env.tr(ac.Expr)
		if v.Sort == nilSort {
			v = env.coerce(v, fx.reg.compSort[comp])
		}
		if v.Sort != fx.reg.compSort[comp] {
			panic(specError{"after: sort mismatch for " + ac.Var + ": " + v.Sort + " vs " + fx.reg.compSort[comp]})
		}
		fx.setH(st, comp, v.S)
	}
}

func (fx *FuncExec) exec(st *State, s ast.Stmt) *State {
	fx.curPos = s.Pos()
	switch s := s.(type) {
	case *ast.BlockStmt:
		return fx.execBlock(st, s.List)
	case *ast.ExprStmt:
		if call, ok := s.X.(*ast.CallExpr); ok {
			if id, ok := call.Fun.(*ast.Ident); ok && id.Name == "panic" {
				if _, isB := fx.info.Uses[id].(*types.Builtin); isB {
					for _, a := range call.Args {
						fx.evalAny(st, a)
					}
					fx.oblige(st, "panic/explicit", "", "false", "explicit panic is unreachable: "+trunc(exprString(call), 80), s.Pos())
					return nil
				}
			}
			fx.evalCall(st, call)
			return st
		}
		fx.evalAny(st, s.X)
		return st
	case *ast.AssignStmt:
		fx.execAssign(st, s)
		return st
	case *ast.IncDecStmt:
		one := &ast.BasicLit{Kind: token.INT, Value: "1"}
		cur := fx.eval(st, s.X)
		op := "+"
		if s.Tok == token.DEC {
			op = "-"
		}
		_ = one
		val := Term{S: "(" + op + " " + cur.S + " 1)", Sort: "Int", T: cur.T}
		val = fx.wrapInt(val, cur.T)
		fx.assignTo(st, s.X, val)
		return st
	case *ast.DeclStmt:
		gd, ok := s.Decl.(*ast.GenDecl)
		if !ok || gd.Tok != token.VAR {
			if ok && (gd.Tok == token.CONST || gd.Tok == token.TYPE) {
				return st
			}
			fx.unsupported(s.Pos(), "declaration")
		}
		for _, sp := range gd.Specs {
			vs := sp.(*ast.ValueSpec)
			if len(vs.Values) == 1 && len(vs.Names) > 1 {
				rs := fx.evalMulti(st, vs.Values[0])
				for i, id := range vs.Names {
					if v, ok := fx.info.Defs[id].(*types.Var); ok {
						fx.defineVar(st, v, rs[i])
					}
				}
				continue
			}
			for i, id := range vs.Names {
				v, ok := fx.info.Defs[id].(*types.Var)
				if !ok {
					continue
				}
				if i < len(vs.Values) {
					val := fx.evalTo(st, vs.Values[i], v.Type())
					fx.defineVar(st, v, val)
				} else {
					fx.defineZero(st, v)
				}
			}
		}
		return st
	case *ast.ReturnStmt:
		fx.execReturn(st, s)
		return nil
	case *ast.IfStmt:
		return fx.execIf(st, s)
	case *ast.ForStmt:
		return fx.execFor(st, s)
	case *ast.RangeStmt:
		return fx.execRange(st, s)
	case *ast.SwitchStmt:
		return fx.execSwitch(st, s)
	case *ast.TypeSwitchStmt:
		return fx.execTypeSwitch(st, s)
	case *ast.BranchStmt:
		if s.Label != nil {
			fx.unsupported(s.Pos(), "labelled branch")
		}
		switch s.Tok {
		case token.BREAK:
			l := fx.loops[len(fx.loops)-1]
			l.breaks = append(l.breaks, st)
			return nil
		case token.CONTINUE:
			for i := len(fx.loops) - 1; i >= 0; i-- {
				if !fx.loops[i].isSwitch {
					fx.loops[i].continues = append(fx.loops[i].continues, st)
					return nil
				}
			}
			fx.unsupported(s.Pos(), "continue outside loop")
		}
		fx.unsupported(s.Pos(), "branch %s", s.Tok)
	case *ast.EmptyStmt:
		return st
	case *ast.LabeledStmt:
		fx.unsupported(s.Pos(), "label")
	case *ast.GoStmt, *ast.DeferStmt, *ast.SelectStmt, *ast.SendStmt:
		fx.unsupported(s.Pos(), "statement outside the verified subset: %T", s)
	}
	fx.unsupported(s.Pos(), "statement %T", s)
	return nil
}

func trunc(s string, n int) string {
	s = strings.Join(strings.Fields(s), " ")
	if len(s) > n {
		return s[:n] + "…"
	}
	return s
}

func (fx *FuncExec) defineZero(st *State, v *types.Var) {
	if si := fx.structValInfo(v.Type()); si != nil {
		r := fx.allocStruct(st, si)
		fx.declareVar(st, v, r)
		return
	}
	fx.declareVar(st, v, fx.reg.Zero(fx.reg.SortOf(v.Type())))
}

// defineVar binds a new local to a value (copying struct values).
func (fx *FuncExec) defineVar(st *State, v *types.Var, val Term) {
	if v.Name() == "_" {
		return
	}
	val = fx.convert(st, val, v.Type())
	if si := fx.structValInfo(v.Type()); si != nil && !val.Fresh {
		val.S = fx.copyStruct(st, val.S, si, true)
	}
	// bind through a named constant to keep terms small
	c := fx.fresh(v.Name(), fx.reg.SortOf(v.Type()))
	st.pc = append(st.pc, eq(c, val.S))
	fx.declareVar(st, v, c)
}

func (fx *FuncExec) execReturn(st *State, s *ast.ReturnStmt) {
	sig := fx.fi.Sig
	if len(s.Results) == 1 && sig.Results().Len() > 1 {
		rs := fx.evalMulti(st, s.Results[0])
		for i, k := range fx.resKeys {
			fx.setResult(st, i, k, rs[i])
		}
	} else {
		var vals []Term
		for i, r := range s.Results {
			vals = append(vals, fx.evalTo(st, r, sig.Results().At(i).Type()))
		}
		for i, v := range vals {
			fx.setResult(st, i, fx.resKeys[i], v)
		}
	}
	fx.rets = append(fx.rets, st)
}

func (fx *FuncExec) setResult(st *State, i int, key string, val Term) {
	rt := fx.fi.Sig.Results().At(i).Type()
	val = fx.convert(st, val, rt)
	if si := fx.structValInfo(rt); si != nil && !val.Fresh {
		val.S = fx.copyStruct(st, val.S, si, true)
	}
	rv := fx.fi.Sig.Results().At(i)
	if rv.Name() != "" && rv.Name() != "_" && fx.boxed[rv] {
		pi := fx.reg.ptrOf(types.NewPointer(rv.Type()))
		fx.setHq(st, pi.Comp, store(fx.H(st, pi.Comp), st.vars[key], val.S))
		return
	}
	if si := fx.structValInfo(rt); si != nil && rv.Name() != "" && rv.Name() != "_" {
		// named struct result: copy into its object
		if st.vars[key] != val.S {
			fx.copyInto(st, st.vars[key], val.S, si, true)
		}
		return
	}
	st.vars[key] = val.S
}

// execIfBranches executes an if statement and returns the end states of its branches unmerged.
func (fx *FuncExec) execIfBranches(st *State, s *ast.IfStmt) []*State {
	if s.Init != nil {
		st = fx.exec(st, s.Init)
		if st == nil {
			return nil
		}
	}
	c := fx.evalCond(st, s.Cond)
	thenSt := st.clone()
	thenSt.assume(c)
	elseSt := st
	elseSt.assume(not(c))
	t := fx.execBlock(thenSt, s.Body.List)
	var e *State
	if s.Else != nil {
		e = fx.exec(elseSt, s.Else)
	} else {
		e = elseSt
	}
	return []*State{t, e}
}

func (fx *FuncExec) execIf(st *State, s *ast.IfStmt) *State {
	if s.Init != nil {
		st = fx.exec(st, s.Init)
		if st == nil {
			return nil
		}
	}
	c := fx.evalCond(st, s.Cond)
	thenSt := st.clone()
	thenSt.assume(c)
	elseSt := st
	elseSt.assume(not(c))
	t := fx.execBlock(thenSt, s.Body.List)
	var e *State
	if s.Else != nil {
		e = fx.exec(elseSt, s.Else)
	} else {
		e = elseSt
	}
	if fx.tailHandOver(s, []*State{t, e}) {
		return nil
	}
	return fx.mergeStates([]*State{t, e})
}

func (fx *FuncExec) execSwitch(st *State, s *ast.SwitchStmt) *State {
	if s.Init != nil {
		st = fx.exec(st, s.Init)
	}
	var tag *Term
	if s.Tag != nil {
		t := fx.eval(st, s.Tag)
		tag = &t
	}
	lc := &loopCtx{isSwitch: true}
	fx.loops = append(fx.loops, lc)
	var outs []*State
	rest := st
	var defaultClause *ast.CaseClause
	for _, cl := range s.Body.List {
		cc := cl.(*ast.CaseClause)
		if cc.List == nil {
			defaultClause = cc
			continue
		}
		var conds []string
		for _, x := range cc.List {
			if tag != nil {
				v := fx.eval(rest, x)
				a, b := fx.unifyTerms(rest, *tag, v)
				conds = append(conds, eq(a.S, b.S))
			} else {
				conds = append(conds, fx.evalCond(rest, x))
			}
		}
		c := or(conds...)
		body := rest.clone()
		body.assume(c)
		rest.assume(not(c))
		outs = append(outs, fx.execBlock(body, cc.Body))
	}
	if defaultClause != nil {
		outs = append(outs, fx.execBlock(rest, defaultClause.Body))
	} else {
		outs = append(outs, rest)
	}
	fx.loops = fx.loops[:len(fx.loops)-1]
	outs = append(outs, lc.breaks...)
	if fx.tailHandOver(s, outs) {
		return nil
	}
	return fx.mergeStates(outs)
}

func (fx *FuncExec) execTypeSwitch(st *State, s *ast.TypeSwitchStmt) *State {
	if s.Init != nil {
		st = fx.exec(st, s.Init)
	}
	var x ast.Expr
	switch a := s.Assign.(type) {
	case *ast.AssignStmt:
		x = a.Rhs[0].(*ast.TypeAssertExpr).X
	case *ast.ExprStmt:
		x = a.X.(*ast.TypeAssertExpr).X
	}
	val := fx.eval(st, x)
	lc := &loopCtx{isSwitch: true}
	fx.loops = append(fx.loops, lc)
	var outs []*State
	rest := st
	var defaultClause *ast.CaseClause
	for _, cl := range s.Body.List {
		cc := cl.(*ast.CaseClause)
		if cc.List == nil {
			defaultClause = cc
			continue
		}
		var conds []string
		var single types.Type
		for _, tx := range cc.List {
			if id, ok := tx.(*ast.Ident); ok && id.Name == "nil" {
				conds = append(conds, eq(val.S, "nil_Any"))
				continue
			}
			t := fx.info.Types[tx].Type
			conds = append(conds, fx.typeTest(val, t, exprString(tx)))
			if len(cc.List) == 1 {
				single = t
			}
		}
		c := or(conds...)
		body := rest.clone()
		body.assume(c)
		rest.assume(not(c))
		if obj, ok := fx.info.Implicits[cc].(*types.Var); ok {
			bv := val
			if single != nil && !types.IsInterface(single) {
				bv = fx.unboxTerm(val, single)
			}
			bv.T = obj.Type()
			fx.defineVarNoCopy(body, obj, bv)
		}
		outs = append(outs, fx.execBlock(body, cc.Body))
	}
	if defaultClause != nil {
		if obj, ok := fx.info.Implicits[defaultClause].(*types.Var); ok {
			fx.defineVarNoCopy(rest, obj, val)
		}
		outs = append(outs, fx.execBlock(rest, defaultClause.Body))
	} else {
		outs = append(outs, rest)
	}
	fx.loops = fx.loops[:len(fx.loops)-1]
	outs = append(outs, lc.breaks...)
	if fx.tailHandOver(s, outs) {
		return nil
	}
	return fx.mergeStates(outs)
}

func (fx *FuncExec) defineVarNoCopy(st *State, v *types.Var, val Term) {
	if v.Name() == "_" {
		return
	}
	k := varKey(v)
	fx.varSort[k] = val.Sort
	fx.varType[k] = v.Type()
	st.vars[k] = val.S
}

// typeTest: does the dynamic type of interface value v equal / implement t?
func (fx *FuncExec) typeTest(v Term, t types.Type, name string) string {
	if types.IsInterface(t) {
		it := t.Underlying().(*types.Interface)
		if it.Empty() {
			return not(eq(v.S, "nil_Any"))
		}
		p := fx.reg.ImplPred(shortTypeName(t), it)
		return "(" + p + " (tag " + v.S + "))"
	}
	b := fx.reg.Box(t)
	return eq("(tag "+v.S+")", strconv.Itoa(b.Tag))
}

func (fx *FuncExec) unboxTerm(v Term, t types.Type) Term {
	b := fx.reg.Box(t)
	return Term{S: "(unbox_" + b.Key + " " + v.S + ")", Sort: b.Sort, T: t}
}

// ---------------------------------------------------------------- loops

type loopSpec struct {
	ord  int
	invs []*Clause
	dec  *Clause
}

func (fx *FuncExec) nextLoop() loopSpec {
	fx.loopOrd++
	ls := loopSpec{ord: fx.loopOrd}
	if fx.contract != nil {
		ls.invs = append(append([]*Clause(nil), fx.contract.LoopInv[0]...), fx.contract.LoopInv[ls.ord]...)
		ls.dec = fx.contract.LoopDec[ls.ord]
	}
	return ls
}

// modifiedIn computes the locals and heap components a loop body may modify.
func (fx *FuncExec) modifiedIn(nodes ...ast.Node) (locals map[*types.Var]bool, comps map[string]bool) {
	locals = map[*types.Var]bool{}
	comps = map[string]bool{}
	markLHS := func(x ast.Expr) {
		switch x := x.(type) {
		case *ast.Ident:
			if v, ok := fx.info.Uses[x].(*types.Var); ok {
				if fx.boxed[v] {
					comps[fx.reg.ptrOf(types.NewPointer(v.Type())).Comp] = true
				} else if si := fx.structValInfo(v.Type()); si != nil {
					for _, f := range si.Fields {
						comps[si.Comp[f]] = true
					}
				} else {
					locals[v] = true
				}
			}
		case *ast.SelectorExpr:
			if sel := fx.info.Selections[x]; sel != nil {
				bt := fx.info.Types[x.X].Type
				srt := fx.reg.SortOf(bt)
				if si, ok := fx.reg.structs[srt]; ok {
					fx.markField(si, x.Sel.Name, comps)
				}
			}
		case *ast.IndexExpr:
			bt := fx.info.Types[x.X].Type
			switch u := bt.Underlying().(type) {
			case *types.Map:
				mi := fx.reg.mapOf(u)
				comps[mi.Dom] = true
				comps[mi.Val] = true
			case *types.Slice:
				comps[fx.reg.sliceComp(u.Elem())] = true
			}
		case *ast.StarExpr:
			bt := fx.info.Types[x.X].Type
			if p, ok := bt.Underlying().(*types.Pointer); ok {
				if si := fx.structValInfo(p.Elem()); si != nil {
					for _, f := range si.Fields {
						comps[si.Comp[f]] = true
					}
				} else {
					comps[fx.reg.ptrOf(p).Comp] = true
				}
			}
		}
	}
	for _, n := range nodes {
		if n == nil {
			continue
		}
		ast.Inspect(n, func(n ast.Node) bool {
			switch n := n.(type) {
			case *ast.FuncLit:
				return false
			case *ast.AssignStmt:
				for _, l := range n.Lhs {
					markLHS(l)
					if id, ok := l.(*ast.Ident); ok && n.Tok == token.DEFINE {
						if v, ok := fx.info.Defs[id].(*types.Var); ok {
							if fx.structValInfo(v.Type()) != nil {
								fx.markAllocComps(v.Type(), comps)
							}
							if fx.boxed[v] {
								comps[fx.reg.ptrOf(types.NewPointer(v.Type())).Comp] = true
							}
						}
					}
				}
			case *ast.IncDecStmt:
				markLHS(n.X)
			case *ast.RangeStmt:
				if n.Tok == token.ASSIGN {
					if n.Key != nil {
						markLHS(n.Key)
					}
					if n.Value != nil {
						markLHS(n.Value)
					}
				}
			case *ast.CompositeLit:
				fx.markAllocComps(fx.typeOf(n), comps)
			case *ast.DeclStmt:
				if gd, ok := n.Decl.(*ast.GenDecl); ok {
					for _, sp := range gd.Specs {
						if vs, ok := sp.(*ast.ValueSpec); ok {
							for _, id := range vs.Names {
								if v, ok := fx.info.Defs[id].(*types.Var); ok {
									if si := fx.structValInfo(v.Type()); si != nil {
										fx.markAllocComps(v.Type(), comps)
									}
									if fx.boxed[v] {
										comps[fx.reg.ptrOf(types.NewPointer(v.Type())).Comp] = true
									}
								}
							}
						}
					}
				}
			case *ast.CallExpr:
				for c := range fx.callAssigns(n) {
					comps[c] = true
				}
				for _, a := range n.Args {
					if at := fx.typeOf(a); at != nil && fx.structValInfo(at) != nil {
						fx.markAllocComps(at, comps)
					}
				}
				if sg, ok := fx.typeOf(n.Fun).(*types.Signature); ok && sg.Variadic() && !n.Ellipsis.IsValid() {
					vt := sg.Params().At(sg.Params().Len() - 1).Type().(*types.Slice)
					comps[fx.reg.sliceComp(vt.Elem())] = true
				}
				if rt := fx.typeOf(n); rt != nil && fx.structValInfo(rt) != nil {
					fx.markAllocComps(rt, comps)
				}
			case *ast.StarExpr:
				if rt := fx.typeOf(n); rt != nil && fx.structValInfo(rt) != nil {
					fx.markAllocComps(rt, comps)
				}
			}
			return true
		})
	}
	for c := range fx.reg.compSort {
		if strings.HasPrefix(c, "AL_") {
			comps[c] = true
		}
	}
	if fx.contract != nil {
		for _, ac := range fx.contract.After {
			if ac.Assert {
				continue
			}
			if comp, ok := fx.reg.ghostVars[ac.Var]; ok {
				comps[comp] = true
			}
			if dot := strings.LastIndex(ac.Var, "."); dot > 0 {
				for _, si := range fx.reg.structs {
					for _, gf := range si.GhostF {
						if gf == ac.Var[dot+1:] {
							comps[si.Comp[gf]] = true
						}
					}
				}
			}
		}
	}
	return
}

// markAllocComps marks the components initialised when a value of type t is allocated.
func (fx *FuncExec) markAllocComps(t types.Type, comps map[string]bool) {
	if t == nil {
		return
	}
	if p, ok := t.Underlying().(*types.Pointer); ok {
		t = p.Elem()
	}
	switch u := t.Underlying().(type) {
	case *types.Struct:
		if si := fx.structValInfo(t); si != nil {
			for _, f := range si.Fields {
				comps[si.Comp[f]] = true
				if fx.structValInfo(si.FieldT[f]) != nil {
					fx.markAllocComps(si.FieldT[f], comps)
				}
			}
		}
	case *types.Map:
		mi := fx.reg.mapOf(u)
		comps[mi.Dom] = true
		comps[mi.Val] = true
	case *types.Slice:
		comps[fx.reg.sliceComp(u.Elem())] = true
	}
}

func (fx *FuncExec) markField(si *StructInfo, field string, comps map[string]bool) {
	if c, ok := si.Comp[field]; ok {
		comps[c] = true
		return
	}
	for _, f := range si.Fields {
		if sub := fx.structValInfo(si.FieldT[f]); sub != nil {
			fx.markField(sub, field, comps)
		}
	}
}

// callAssigns: the heap components a call may modify, from the callee's contract.
func (fx *FuncExec) callAssigns(call *ast.CallExpr) map[string]bool {
	out := map[string]bool{}
	tv := fx.info.Types[call.Fun]
	if tv.IsType() {
		return out
	}
	if id, ok := call.Fun.(*ast.Ident); ok {
		if b, ok := fx.info.Uses[id].(*types.Builtin); ok {
			switch b.Name() {
			case "delete":
				if mt, ok := fx.info.Types[call.Args[0]].Type.Underlying().(*types.Map); ok {
					mi := fx.reg.mapOf(mt)
					out[mi.Dom] = true
					out[mi.Val] = true
				}
			case "append", "copy":
				if st, ok := fx.info.Types[call.Args[0]].Type.Underlying().(*types.Slice); ok {
					out[fx.reg.sliceComp(st.Elem())] = true
				}
			case "make", "new":
				t := fx.info.Types[call.Args[0]].Type
				fx.markAllocComps(t, out)
				if b.Name() == "new" && fx.structValInfo(t) == nil {
					out[fx.reg.ptrOf(types.NewPointer(t)).Comp] = true
				}
			}
			return out
		}
	}
	c, key, pkg := fx.calleeContract(call)
	if c == nil {
		if key == "log" {
			return out
		}
		for _, comp := range fx.reg.comps {
			out[comp] = true
		}
		return out
	}
	if !c.HasAssigns {
		for _, comp := range fx.reg.comps {
			out[comp] = true
		}
		return out
	}
	return fx.assignsComps(c, pkg)
}

type loopFrame struct {
	ls       loopSpec
	head     *State // state at loop head after havoc + invariants (for old-at-head)
	preLoop  *State
	modLoc   map[*types.Var]bool
	modComps map[string]bool
	pos      token.Pos
	ghosts   map[string]Term
}

// loopHead asserts the invariants on entry, havocs what the loop modifies and
// assumes the invariants; it returns the head state.
func (fx *FuncExec) loopHead(st *State, ls loopSpec, pos token.Pos, bodyPos token.Pos, modLoc map[*types.Var]bool, modComps map[string]bool, ghostKeys []string) *State {
	// initial check
	for _, inv := range ls.invs {
		env := fx.specEnv(st, fx.entry, bodyPos, fmt.Sprintf("loop %d invariant", ls.ord))
		g := env.Bool(inv.Expr)
		if !inv.Free {
			fx.oblige(st, fmt.Sprintf("loop%d/inv-init", ls.ord), inv.Label, g, inv.Text, pos).Using = inv.Using
		}
	}
	head := st.clone()
	// heap first: typing facts of havocked locals must refer to the NEW allocation state
	var cs []string
	for _, c := range fx.reg.comps {
		if modComps[c] {
			cs = append(cs, c)
		}
	}
	oldAl := map[string]string{}
	for _, c := range cs {
		if strings.HasPrefix(c, "AL_") {
			oldAl[c] = head.vars[c]
			if oldAl[c] == "" {
				oldAl[c] = fx.h0(c)
			}
		}
	}
	fx.havocHeap(head, cs)
	fx.allocMonotone(head, oldAl)
	var mvs []*types.Var
	for v := range modLoc {
		mvs = append(mvs, v)
	}
	sort.Slice(mvs, func(i, j int) bool { return mvs[i].Pos() < mvs[j].Pos() })
	for _, v := range mvs {
		k := varKey(v)
		if _, ok := head.vars[k]; !ok {
			continue // declared inside the loop
		}
		c := fx.fresh(v.Name(), fx.varSort[k])
		head.vars[k] = c
		for _, f := range fx.typingFacts(head, c, v.Type()) {
			head.assume(f)
		}
	}
	for _, k := range ghostKeys {
		head.vars[k] = fx.fresh(shortKey(k), fx.varSort[k])
	}
	for i, inv := range ls.invs {
		env := fx.specEnv(head, fx.entry, bodyPos, fmt.Sprintf("loop %d invariant", ls.ord))
		tag := fmt.Sprintf("inv%d.%d", ls.ord, i+1)
		if inv.Label != "" {
			tag = fmt.Sprintf("inv%d.%s", ls.ord, inv.Label)
		}
		fx.assumeTagged(head, env.Bool(inv.Expr), tag)
	}
	return head
}

func (fx *FuncExec) loopBack(st *State, ls loopSpec, pos token.Pos, bodyPos token.Pos, head *State) {
	if st == nil {
		return
	}
	for _, inv := range ls.invs {
		if inv.Free {
			continue
		}
		env := fx.specEnv(st, fx.entry, bodyPos, fmt.Sprintf("loop %d invariant", ls.ord))
		g := env.Bool(inv.Expr)
		fx.oblige(st, fmt.Sprintf("loop%d/inv-preserve", ls.ord), inv.Label, g, inv.Text, pos).Using = inv.Using
	}
	if ls.dec != nil {
		envNew := fx.specEnv(st, fx.entry, bodyPos, "loop decreases")
		envOld := fx.specEnv(head, fx.entry, bodyPos, "loop decreases")
		n := envNew.tr(ls.dec.Expr)
		o := envOld.tr(ls.dec.Expr)
		fx.oblige(st, fmt.Sprintf("loop%d/decreases", ls.ord), "", and("(< "+n.S+" "+o.S+")", "(>= "+o.S+" 0)"), ls.dec.Text, pos)
	}
}

func (fx *FuncExec) execFor(st *State, s *ast.ForStmt) *State {
	if s.Init != nil {
		st = fx.exec(st, s.Init)
	}
	ls := fx.nextLoop()
	modLoc, modComps := fx.modifiedIn(s.Body, s.Post, s.Cond)
	bodyPos := s.Body.Lbrace + 1
	head := fx.loopHead(st, ls, s.Pos(), bodyPos, modLoc, modComps, nil)
	lc := &loopCtx{}
	fx.loops = append(fx.loops, lc)
	var bodySt, exitSt *State
	if s.Cond != nil {
		c := fx.evalCond(head, s.Cond)
		bodySt = head.clone()
		exitSt = head.clone()
		bodySt.assume(c)
		exitSt.assume(not(c))
	} else {
		bodySt = head.clone()
	}
	ends := fx.bodyEnds(bodySt, s.Body.List, lc)
	fx.loops = fx.loops[:len(fx.loops)-1]
	for _, back := range ends {
		if back != nil && s.Post != nil {
			back = fx.exec(back, s.Post)
		}
		fx.loopBack(back, ls, s.Pos(), bodyPos, head)
	}
	return fx.mergeStates(append([]*State{exitSt}, lc.breaks...))
}

func (fx *FuncExec) execRange(st *State, s *ast.RangeStmt) *State {
	xt := fx.info.Types[s.X].Type
	coll := fx.eval(st, s.X)
	ls := fx.nextLoop()
	modLoc, modComps := fx.modifiedIn(s.Body)
	bodyPos := s.Body.Lbrace + 1
	var keyVar, valVar *types.Var
	getVar := func(x ast.Expr) *types.Var {
		id, ok := x.(*ast.Ident)
		if !ok || id.Name == "_" {
			return nil
		}
		if s.Tok == token.DEFINE {
			v, _ := fx.info.Defs[id].(*types.Var)
			return v
		}
		v, _ := fx.info.Uses[id].(*types.Var)
		return v
	}
	if s.Key != nil {
		keyVar = getVar(s.Key)
	}
	if s.Value != nil {
		valVar = getVar(s.Value)
	}
	lc := &loopCtx{}
	switch u := xt.Underlying().(type) {
	case *types.Map:
		mi := fx.reg.mapOf(u)
		setSort := "(Array " + mi.K + " Bool)"
		seenKey := fmt.Sprintf("G:seen%d", ls.ord)
		fx.varSort[seenKey] = setSort
		fx.ghostVar[fmt.Sprintf("seen%d", ls.ord)] = seenKey
		st.vars[seenKey] = "((as const " + setSort + ") false)"
		// the ranged map reference, for invariants
		mKey := fmt.Sprintf("G:rmap%d", ls.ord)
		fx.varSort[mKey] = mi.Sort
		fx.ghostVar[fmt.Sprintf("rmap%d", ls.ord)] = mKey
		st.vars[mKey] = coll.S
		// inserting into the ranged map type inside the body is only allowed for other map objects;
		head := fx.loopHead(st, ls, s.Pos(), bodyPos, modLoc, modComps, []string{seenKey})
		fx.loops = append(fx.loops, lc)
		bodySt := head.clone()
		exitSt := head.clone()
		k := fx.fresh("rk", mi.K)
		domNow := sel(fx.H(bodySt, mi.Dom), coll.S)
		bodySt.assume(and(sel(domNow, k), not(sel(bodySt.vars[seenKey], k))))
		if keyVar != nil {
			fx.defineOrAssign(bodySt, keyVar, Term{S: k, Sort: mi.K, T: mi.KT}, s.Tok == token.DEFINE)
		}
		if valVar != nil {
			fx.defineOrAssign(bodySt, valVar, Term{S: sel(sel(fx.H(bodySt, mi.Val), coll.S), k), Sort: mi.V, T: mi.VT}, s.Tok == token.DEFINE)
		}
		ns := fx.fresh("seen", setSort)
		bodySt.pc = append(bodySt.pc, eq(ns, store(bodySt.vars[seenKey], k, "true")))
		bodySt.vars[seenKey] = ns
		// ghost: current key for invariants in nested loops
		ckKey := fmt.Sprintf("G:rkey%d", ls.ord)
		fx.varSort[ckKey] = mi.K
		fx.ghostVar[fmt.Sprintf("rkey%d", ls.ord)] = ckKey
		bodySt.vars[ckKey] = k
		ends := fx.bodyEnds(bodySt, s.Body.List, lc)
		fx.loops = fx.loops[:len(fx.loops)-1]
		for _, back := range ends {
			fx.loopBack(back, ls, s.Pos(), bodyPos, head)
		}
		// exit: every key currently in the map has been produced
		kq := fmt.Sprintf("k!x%d", ls.ord)
		exitSt.assume(fmt.Sprintf("(forall ((%s %s)) (=> (select %s %s) (select %s %s)))", kq, mi.K, sel(fx.H(exitSt, mi.Dom), coll.S), kq, exitSt.vars[seenKey], kq))
		delete(fx.ghostVar, fmt.Sprintf("rkey%d", ls.ord))
		return fx.mergeStates(append([]*State{exitSt}, lc.breaks...))
	case *types.Slice, *types.Array, *types.Basic:
		// range over slice (evaluated once) or integer
		var n string
		var elemT types.Type
		isInt := false
		if b, ok := u.(*types.Basic); ok {
			if b.Info()&types.IsInteger == 0 {
				fx.unsupported(s.Pos(), "range over %s", xt)
			}
			isInt = true
			n = coll.S
		} else {
			n = "(slen " + coll.S + ")"
			elemT = sliceElemType(xt)
		}
		idxKey := fmt.Sprintf("G:idx%d", ls.ord)
		fx.varSort[idxKey] = "Int"
		fx.ghostVar[fmt.Sprintf("idx%d", ls.ord)] = idxKey
		st.vars[idxKey] = "0"
		sKey := fmt.Sprintf("G:rslice%d", ls.ord)
		fx.ghostVar[fmt.Sprintf("rslice%d", ls.ord)] = sKey
		if !isInt {
			fx.varSort[sKey] = "Slice"
			fx.varType[sKey] = xt
			st.vars[sKey] = coll.S
		}
		head := fx.loopHead(st, ls, s.Pos(), bodyPos, modLoc, modComps, []string{idxKey})
		i := head.vars[idxKey]
		head.assume(and("(<= 0 "+i+")", "(<= "+i+" "+n+")"))
		fx.loops = append(fx.loops, lc)
		bodySt := head.clone()
		exitSt := head.clone()
		bodySt.assume("(< " + i + " " + n + ")")
		exitSt.assume("(>= " + i + " " + n + ")")
		if keyVar != nil {
			fx.defineOrAssign(bodySt, keyVar, Term{S: i, Sort: "Int", T: types.Typ[types.Int]}, s.Tok == token.DEFINE)
		}
		if valVar != nil && !isInt {
			comp := fx.reg.sliceComp(elemT)
			ev := Term{S: sel(sel(fx.H(bodySt, comp), "(sref "+coll.S+")"), "(sidx (soff "+coll.S+") "+i+")"), Sort: fx.reg.SortOf(elemT), T: elemT}
			fx.defineOrAssign(bodySt, valVar, ev, s.Tok == token.DEFINE)
		}
		// the index the body is working on stays available as idxN; increment happens at the back edge
		fx.runBodySplit(lc, bodySt, func(b *State) {
			lc.continues = nil
			for _, back := range fx.bodyEnds(b, s.Body.List, lc) {
				back.vars[idxKey] = "(+ " + i + " 1)"
				fx.loopBack(back, ls, s.Pos(), bodyPos, head)
			}
		})
		fx.loops = fx.loops[:len(fx.loops)-1]
		return fx.mergeStates(append([]*State{exitSt}, lc.breaks...))
	}
	fx.unsupported(s.Pos(), "range over %s", xt)
	return nil
}

func (fx *FuncExec) defineOrAssign(st *State, v *types.Var, val Term, define bool) {
	if define {
		val = fx.convert(st, val, v.Type())
		if si := fx.structValInfo(v.Type()); si != nil {
			val.S = fx.copyStruct(st, val.S, si, true)
		}
		fx.declareVar(st, v, val.S)
		return
	}
	fx.storeVar(st, v, val)
}

// splitSignal aborts the execution of a loop body when a closed-world
// dispatch is met: the body is then re-executed once per candidate literal
// (path splitting instead of a merged disjunction).
type splitSignal struct{ n int }

func (fx *FuncExec) runBodySplit(lc *loopCtx, bodySt *State, run func(b *State)) {
	snapObls := len(fx.obls)
	snapCnt := map[string]int{}
	for k, v := range fx.counters {
		snapCnt[k] = v
	}
	snapRets := len(fx.rets)
	snapLoopOrd := fx.loopOrd
	snapBreaks := len(lc.breaks)
	snapLoops := len(fx.loops)
	var snapUsed []bool
	if fx.contract != nil {
		for _, ac := range fx.contract.After {
			snapUsed = append(snapUsed, ac.Used)
		}
	}
	n := 0
	func() {
		defer func() {
			if r := recover(); r != nil {
				if sig, ok := r.(splitSignal); ok {
					n = sig.n
					return
				}
				panic(r)
			}
		}()
		fx.loopDepth++
		defer func() { fx.loopDepth-- }()
		run(bodySt.clone())
	}()
	if n == 0 {
		return
	}
	restore := func() {
		fx.counters = map[string]int{}
		for k, v := range snapCnt {
			fx.counters[k] = v
		}
		fx.loopOrd = snapLoopOrd
		fx.loops = fx.loops[:snapLoops]
		if fx.contract != nil {
			for i, ac := range fx.contract.After {
				ac.Used = snapUsed[i]
			}
		}
	}
	fx.obls = fx.obls[:snapObls]
	fx.rets = fx.rets[:snapRets]
	lc.breaks = lc.breaks[:snapBreaks]
	maxCnt := map[string]int{}
	for k := 0; k < n; k++ {
		restore()
		fx.forced = k
		fx.loopDepth++
		run(bodySt.clone())
		fx.loopDepth--
		fx.forced = -1
		fx.suffix = ""
		for key, v := range fx.counters {
			if v > maxCnt[key] {
				maxCnt[key] = v
			}
		}
	}
	fx.counters = maxCnt
}


func onlyReturns(list []ast.Stmt) bool {
	if len(list) != 1 {
		return false
	}
	_, ok := list[0].(*ast.ReturnStmt)
	return ok
}


// bodyEnds executes a loop body and returns the states that reach the back
// edge. Normally they are merged into one; under tail-split a body ending in
// an if/switch hands back one state per branch (plus the continue states), so
// that invariant preservation is checked branch by branch.
func (fx *FuncExec) bodyEnds(b *State, body []ast.Stmt, lc *loopCtx) []*State {
	split := false
	if fx.contract != nil && fx.contract.TailSplit && len(body) > 0 {
		switch body[len(body)-1].(type) {
		case *ast.IfStmt, *ast.SwitchStmt, *ast.TypeSwitchStmt:
			split = true
		}
	}
	if !split {
		end := fx.execBlock(b, body)
		if fx.contract != nil && fx.contract.TailSplit {
			// the continue states and the fall-through state reach the back edge separately
			var ends []*State
			for _, o := range append([]*State{end}, lc.continues...) {
				if o != nil {
					ends = append(ends, o)
				}
			}
			return ends
		}
		if m := fx.mergeStates(append([]*State{end}, lc.continues...)); m != nil {
			return []*State{m}
		}
		return nil
	}
	savedStmt, savedOuts := fx.tailStmt, fx.tailOuts
	fx.tailStmt, fx.tailOuts = body[len(body)-1], nil
	end := fx.execBlock(b, body)
	outs := fx.tailOuts
	if fx.tailStmt != nil && end != nil {
		// the tail statement was not reached as such (should not happen): fall back
		outs = append(outs, end)
	}
	fx.tailStmt, fx.tailOuts = savedStmt, savedOuts
	var ends []*State
	for _, o := range append(outs, lc.continues...) {
		if o != nil {
			ends = append(ends, o)
		}
	}
	return ends
}

// tailHandOver: called by if/switch execution with the un-merged branch end
// states; true when the statement is the designated tail of a loop body.
func (fx *FuncExec) tailHandOver(s ast.Stmt, outs []*State) bool {
	if fx.tailStmt == nil || fx.tailStmt != s {
		return false
	}
	fx.tailOuts = append(fx.tailOuts, outs...)
	fx.tailStmt = nil
	return true
}

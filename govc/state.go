package main

import (
	"fmt"
	"sort"
	"strings"
)

// State is a symbolic state in passive (single-assignment) form: every
// variable / heap component maps to an SMT term (usually a constant), and pc
// is the list of assumptions made on the way here.
type State struct {
	vars   map[string]string
	pc     []string
	guards []string
}

func NewState() *State { return &State{vars: map[string]string{}} }

func (s *State) clone() *State {
	n := &State{vars: make(map[string]string, len(s.vars)), pc: make([]string, len(s.pc), len(s.pc)+8)}
	for k, v := range s.vars {
		n.vars[k] = v
	}
	copy(n.pc, s.pc)
	n.guards = append([]string(nil), s.guards...)
	return n
}

func and(xs ...string) string {
	var ys []string
	for _, x := range xs {
		if x == "true" || x == "" {
			continue
		}
		ys = append(ys, x)
	}
	switch len(ys) {
	case 0:
		return "true"
	case 1:
		return ys[0]
	}
	return "(and " + strings.Join(ys, " ") + ")"
}

func or(xs ...string) string {
	switch len(xs) {
	case 0:
		return "false"
	case 1:
		return xs[0]
	}
	return "(or " + strings.Join(xs, " ") + ")"
}

func not(x string) string {
	if x == "true" {
		return "false"
	}
	if x == "false" {
		return "true"
	}
	return "(not " + x + ")"
}

func imp(a, b string) string {
	if a == "true" {
		return b
	}
	return "(=> " + a + " " + b + ")"
}

func eq(a, b string) string  { return "(= " + a + " " + b + ")" }
func sel(a, i string) string { return "(select " + a + " " + i + ")" }
func store(a, i, v string) string {
	return "(store " + a + " " + i + " " + v + ")"
}
func ite(c, a, b string) string { return "(ite " + c + " " + a + " " + b + ")" }

func (s *State) guard() string { return and(s.guards...) }

// assume adds a fact, relativised to the active expression guards.
func (s *State) assume(f string) {
	if f == "true" {
		return
	}
	g := s.guard()
	for _, c := range splitAnd(f) {
		if c != "true" {
			s.pc = append(s.pc, imp(g, c))
		}
	}
}

// splitAnd returns the top-level conjuncts of an SMT term (recursively
// through nested conjunctions); anything else is returned as is.
func splitAnd(f string) []string {
	if !strings.HasPrefix(f, "(and ") || !strings.HasSuffix(f, ")") {
		return []string{f}
	}
	body := f[5 : len(f)-1]
	var out []string
	depth, start := 0, -1
	flush := func(end int) {
		if start >= 0 {
			out = append(out, splitAnd(body[start:end])...)
			start = -1
		}
	}
	inBar := false
	for i := 0; i < len(body); i++ {
		ch := body[i]
		if inBar {
			if ch == '|' {
				inBar = false
			}
			continue
		}
		switch ch {
		case '|':
			inBar = true
			if start < 0 {
				start = i
			}
		case '(':
			if depth == 0 && start < 0 {
				start = i
			}
			depth++
		case ')':
			depth--
			if depth < 0 {
				return []string{f}
			}
			if depth == 0 {
				flush(i + 1)
			}
		case ' ', '\n', '\t':
			if depth == 0 {
				flush(i)
			}
		default:
			if depth == 0 && start < 0 {
				start = i
			}
		}
	}
	if depth != 0 {
		return []string{f}
	}
	flush(len(body))
	return out
}

// mergeStates joins several states that descend from a common ancestor.
func (fx *FuncExec) mergeStates(states []*State) *State {
	var live []*State
	for _, s := range states {
		if s != nil {
			live = append(live, s)
		}
	}
	if len(live) == 0 {
		return nil
	}
	if len(live) == 1 {
		return live[0]
	}
	// common pc prefix
	n := len(live[0].pc)
	for _, s := range live[1:] {
		if len(s.pc) < n {
			n = len(s.pc)
		}
	}
	p := 0
	for p < n {
		same := true
		for _, s := range live[1:] {
			if s.pc[p] != live[0].pc[p] {
				same = false
				break
			}
		}
		if !same {
			break
		}
		p++
	}
	out := &State{vars: map[string]string{}, pc: append([]string(nil), live[0].pc[:p]...)}
	keys := map[string]bool{}
	for _, s := range live {
		for k := range s.vars {
			keys[k] = true
		}
	}
	ks := make([]string, 0, len(keys))
	for k := range keys {
		ks = append(ks, k)
	}
	sort.Strings(ks)
	extra := make([][]string, len(live))
	for _, k := range ks {
		if _, isComp := fx.reg.compSort[k]; isComp {
			for _, s := range live {
				if _, ok := s.vars[k]; !ok {
					s.vars[k] = fx.h0(k)
				}
			}
		}
		v0, ok0 := live[0].vars[k]
		same := ok0
		for _, s := range live[1:] {
			if v, ok := s.vars[k]; !ok || v != v0 {
				same = false
			}
		}
		if same {
			out.vars[k] = v0
			continue
		}
		// variable not defined in all branches: it is out of scope after the join
		all := true
		for _, s := range live {
			if _, ok := s.vars[k]; !ok {
				all = false
			}
		}
		if !all {
			continue
		}
		srt, ok := fx.varSort[k]
		if !ok {
			srt, ok = fx.reg.compSort[k]
		}
		if !ok {
			panic(fmt.Sprintf("merge: no sort for %s", k))
		}
		c := fx.fresh("j_"+shortKey(k), srt)
		out.vars[k] = c
		for i, s := range live {
			extra[i] = append(extra[i], eq(c, s.vars[k]))
		}
	}
	var disj []string
	for i, s := range live {
		parts := append(append([]string(nil), s.pc[p:]...), extra[i]...)
		disj = append(disj, and(parts...))
	}
	out.pc = append(out.pc, or(disj...))
	return out
}

func shortKey(k string) string {
	if i := strings.Index(k, "@"); i >= 0 {
		k = k[:i]
	}
	k = strings.TrimPrefix(k, "L:")
	return sanitize(k)
}

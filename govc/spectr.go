package main

// spectr.go — translation of specification expressions (Go expression syntax
// with call-shaped builtins) to SMT terms, relative to a current and an old
// symbolic state.

import (
	"sort"
	"fmt"
	"go/ast"
	"go/token"
	"go/types"
	"strconv"
	"strings"
)

type SpecEnv struct {
	fx    *FuncExec
	cur   *State
	old   *State
	now   *State // the real current state (locals that do not exist in the old state are read here)
	bound map[string]Term
	scope *types.Scope // Go scope for program variables (may be nil)
	pos   token.Pos
	pkg   *types.Package
	depth int
	where string
}

type specError struct{ msg string }

func (e *SpecEnv) fail(format string, args ...interface{}) {
	panic(specError{e.where + ": " + fmt.Sprintf(format, args...)})
}

func (e *SpecEnv) child() *SpecEnv {
	n := *e
	n.bound = make(map[string]Term, len(e.bound)+2)
	for k, v := range e.bound {
		n.bound[k] = v
	}
	return &n
}

const nilSort = "?nil"

// typeFromString resolves a type written in a spec.
func (fx *FuncExec) typeFromString(s string, pkg *types.Package) (sortName string, t types.Type) {
	s = strings.TrimSpace(s)
	if a, ok := fx.ctx.spec.SortAlias[s]; ok {
		if pp := fx.ctx.spec.SortAliasPkg[s]; pp != "" {
			pkg = fx.ctx.pkgByPath(pp)
		}
		s = a
	}
	if strings.HasPrefix(s, "$") {
		return s[1:], nil
	}
	if strings.HasPrefix(s, "func(") {
		return "Fn", nil
	}
	if strings.HasPrefix(s, "set[") && strings.HasSuffix(s, "]") {
		es, _ := fx.typeFromString(s[4:len(s)-1], pkg)
		return "(Array " + es + " Bool)", nil
	}
	if strings.HasPrefix(s, "fmap[") && strings.HasSuffix(s, "]") { // fmap[K]V-less: fmap[K,V]
		parts := splitTopLevel(s[5:len(s)-1], ',')
		if len(parts) == 2 {
			ks, _ := fx.typeFromString(parts[0], pkg)
			vs, _ := fx.typeFromString(parts[1], pkg)
			return "(Array " + ks + " " + vs + ")", nil
		}
	}
	switch s {
	case "any":
		it := types.NewInterfaceType(nil, nil)
		return "Any", it
	case "int":
		return "Int", types.Typ[types.Int]
	case "bool":
		return "Bool", types.Typ[types.Bool]
	case "string":
		return "Str", types.Typ[types.String]
	}
	t = fx.parseType(s, pkg)
	return fx.reg.SortOf(t), t
}

// parseType resolves Go type syntax used in specs (qualified names resolve
// against all loaded packages, since spec files have no import clause).
func (fx *FuncExec) parseType(s string, pkg *types.Package) types.Type {
	s = strings.TrimSpace(s)
	if a, ok := fx.ctx.spec.SortAlias[s]; ok {
		if pp := fx.ctx.spec.SortAliasPkg[s]; pp != "" {
			pkg = fx.ctx.pkgByPath(pp)
		}
		s = a
	}
	switch {
	case s == "any" || s == "interface{}":
		return types.NewInterfaceType(nil, nil)
	case strings.HasPrefix(s, "*"):
		return types.NewPointer(fx.parseType(s[1:], pkg))
	case strings.HasPrefix(s, "[]"):
		return types.NewSlice(fx.parseType(s[2:], pkg))
	case strings.HasPrefix(s, "map["):
		depth := 0
		for i := 3; i < len(s); i++ {
			switch s[i] {
			case '[':
				depth++
			case ']':
				depth--
				if depth == 0 {
					return types.NewMap(fx.parseType(s[4:i], pkg), fx.parseType(s[i+1:], pkg))
				}
			}
		}
	case s == "struct{}":
		return types.NewStruct(nil, nil)
	}
	if i := strings.Index(s, "."); i > 0 && !strings.ContainsAny(s, "()[]{} ") {
		if p := fx.ctx.pkgByName(s[:i]); p != nil {
			if o := p.Scope().Lookup(s[i+1:]); o != nil {
				if tn, ok := o.(*types.TypeName); ok {
					return tn.Type()
				}
			}
		}
		panic(specError{fmt.Sprintf("cannot resolve spec type %q", s)})
	}
	tv, err := types.Eval(fx.ctx.fset, pkg, token.NoPos, s)
	if err != nil || tv.Type == nil {
		panic(specError{fmt.Sprintf("cannot resolve spec type %q in %s: %v", s, pkg.Name(), err)})
	}
	return tv.Type
}

func (e *SpecEnv) coerce(t Term, sort string) Term {
	if t.Sort == sort {
		return t
	}
	if t.Sort == nilSort {
		return Term{S: e.fx.reg.Zero(sort), Sort: sort}
	}
	if sort == "Any" && t.T != nil {
		return e.fx.boxTerm(t)
	}
	if sort == "Any" && t.T == nil {
		// try to box by sort when unique
		if bt := e.fx.typeForSort(t.Sort); bt != nil {
			t.T = bt
			return e.fx.boxTerm(t)
		}
	}
	e.fail("cannot coerce %s : %s to %s", t.S, t.Sort, sort)
	return t
}

func (e *SpecEnv) unify(a, b Term) (Term, Term) {
	if a.Sort == b.Sort {
		return a, b
	}
	if a.Sort == nilSort {
		return e.coerce(a, b.Sort), b
	}
	if b.Sort == nilSort {
		return a, e.coerce(b, a.Sort)
	}
	if a.Sort == "Any" {
		return a, e.coerce(b, "Any")
	}
	if b.Sort == "Any" {
		return e.coerce(a, "Any"), b
	}
	e.fail("sort mismatch: %s : %s vs %s : %s", a.S, a.Sort, b.S, b.Sort)
	return a, b
}

func (e *SpecEnv) Bool(x ast.Expr) string {
	t := e.tr(x)
	if t.Sort != "Bool" {
		e.fail("expected Bool, got %s for %s", t.Sort, t.S)
	}
	return t.S
}

func (e *SpecEnv) lookupIdent(name string) Term {
	if t, ok := e.bound[name]; ok {
		return t
	}
	if comp, ok := e.fx.reg.ghostVars[name]; ok {
		return Term{S: e.fx.H(e.cur, comp), Sort: e.fx.reg.compSort[comp]}
	}
	switch name {
	case "nil":
		return Term{S: "nil", Sort: nilSort}
	case "true", "false":
		return Term{S: name, Sort: "Bool", T: types.Typ[types.Bool]}
	}
	if e.scope != nil {
		if _, obj := e.scope.LookupParent(name, e.pos); obj != nil {
			if v, ok := obj.(*types.Var); ok && !v.IsField() && obj.Parent() != e.pkg.Scope() {
				if _, here := e.cur.vars[varKey(v)]; !here && e.now != nil {
					return e.fx.readVar(e.now, v)
				}
				return e.fx.readVar(e.cur, v)
			}
		}
	}
	if e.pkg != nil {
		if obj := e.pkg.Scope().Lookup(name); obj != nil {
			switch o := obj.(type) {
			case *types.Const:
				return e.fx.constTerm(o.Val(), o.Type())
			case *types.Var:
				return e.fx.pkgVar(o)
			}
		}
	}
	e.fail("unknown identifier %q", name)
	return Term{}
}

func (e *SpecEnv) tr(x ast.Expr) Term {
	fx := e.fx
	switch x := x.(type) {
	case *ast.ParenExpr:
		return e.tr(x.X)
	case *ast.Ident:
		return e.lookupIdent(x.Name)
	case *ast.BasicLit:
		switch x.Kind {
		case token.INT:
			return Term{S: x.Value, Sort: "Int", T: types.Typ[types.Int]}
		case token.STRING:
			s, _ := strconv.Unquote(x.Value)
			return Term{S: fx.reg.StrLit(s), Sort: "Str", T: types.Typ[types.String]}
		}
		e.fail("unsupported literal %s", x.Value)
	case *ast.UnaryExpr:
		switch x.Op {
		case token.NOT:
			return Term{S: not(e.Bool(x.X)), Sort: "Bool"}
		case token.SUB:
			t := e.tr(x.X)
			return Term{S: "(- " + t.S + ")", Sort: "Int", T: t.T}
		}
		e.fail("unsupported unary op %s", x.Op)
	case *ast.StarExpr:
		p := e.tr(x.X)
		if pi := fx.ptrInfoBySort(p.Sort); pi != nil {
			return Term{S: sel(fx.H(e.cur, pi.Comp), p.S), Sort: fx.reg.SortOf(pi.Elem), T: pi.Elem}
		}
		return p // *structptr is the same ref
	case *ast.BinaryExpr:
		switch x.Op {
		case token.LAND:
			return Term{S: and(e.Bool(x.X), e.Bool(x.Y)), Sort: "Bool"}
		case token.LOR:
			return Term{S: or(e.Bool(x.X), e.Bool(x.Y)), Sort: "Bool"}
		case token.EQL, token.NEQ:
			a, b := e.unify(e.tr(x.X), e.tr(x.Y))
			s := eq(a.S, b.S)
			if x.Op == token.NEQ {
				s = not(s)
			}
			return Term{S: s, Sort: "Bool"}
		case token.LSS, token.LEQ, token.GTR, token.GEQ:
			a, b := e.tr(x.X), e.tr(x.Y)
			op := map[token.Token]string{token.LSS: "<", token.LEQ: "<=", token.GTR: ">", token.GEQ: ">="}[x.Op]
			return Term{S: "(" + op + " " + a.S + " " + b.S + ")", Sort: "Bool"}
		case token.ADD, token.SUB, token.MUL:
			a, b := e.tr(x.X), e.tr(x.Y)
			if a.Sort == "Str" && x.Op == token.ADD {
				return Term{S: "(str_concat " + a.S + " " + b.S + ")", Sort: "Str", T: a.T}
			}
			op := map[token.Token]string{token.ADD: "+", token.SUB: "-", token.MUL: "*"}[x.Op]
			return Term{S: "(" + op + " " + a.S + " " + b.S + ")", Sort: "Int", T: types.Typ[types.Int]}
		case token.QUO:
			a, b := e.tr(x.X), e.tr(x.Y)
			return Term{S: "(div " + a.S + " " + b.S + ")", Sort: "Int", T: types.Typ[types.Int]}
		case token.REM:
			a, b := e.tr(x.X), e.tr(x.Y)
			return Term{S: "(mod " + a.S + " " + b.S + ")", Sort: "Int", T: types.Typ[types.Int]}
		}
		e.fail("unsupported binary op %s", x.Op)
	case *ast.SelectorExpr:
		// package-qualified?
		if id, ok := x.X.(*ast.Ident); ok {
			if _, isBound := e.bound[id.Name]; !isBound {
				if p := fx.ctx.pkgByName(id.Name); p != nil && (e.scope == nil || func() bool { _, o := e.scope.LookupParent(id.Name, e.pos); _, isPkg := o.(*types.PkgName); return o == nil || isPkg }()) {
					sub := *e
					sub.pkg = p
					sub.scope = nil
					return sub.lookupIdent(x.Sel.Name)
				}
			}
		}
		base := e.tr(x.X)
		return fx.fieldRead(e.cur, base, x.Sel.Name, func(m string) { e.fail("%s", m) })
	case *ast.IndexExpr:
		base := e.tr(x.X)
		if mi, ok := fx.reg.maps[base.Sort]; ok {
			k := e.coerce(e.tr(x.Index), mi.K)
			fx.H(e.cur, mi.Dom)
			return Term{S: sel(sel(fx.H(e.cur, mi.Val), base.S), k.S), Sort: mi.V, T: mi.VT}
		}
		if base.Sort == "Slice" {
			if base.T == nil {
				e.fail("slice index needs a typed slice: %s", base.S)
			}
			et := sliceElemType(base.T)
			comp := fx.reg.sliceComp(et)
			i := e.tr(x.Index)
			return Term{S: sel(sel(fx.H(e.cur, comp), "(sref "+base.S+")"), "(sidx (soff "+base.S+") "+i.S+")"), Sort: fx.reg.SortOf(et), T: et}
		}
		if strings.HasPrefix(base.Sort, "(Array ") {
			ks, vs := arraySorts(base.Sort)
			k := e.coerce(e.tr(x.Index), ks)
			return Term{S: sel(base.S, k.S), Sort: vs}
		}
		e.fail("cannot index %s : %s", base.S, base.Sort)
	case *ast.CallExpr:
		return e.trCall(x)
	}
	e.fail("unsupported spec expression %T", x)
	return Term{}
}

func arraySorts(s string) (k, v string) {
	// "(Array K V)" with possibly nested parens
	inner := strings.TrimSuffix(strings.TrimPrefix(s, "(Array "), ")")
	depth := 0
	for i := 0; i < len(inner); i++ {
		switch inner[i] {
		case '(':
			depth++
		case ')':
			depth--
		case ' ':
			if depth == 0 {
				return inner[:i], inner[i+1:]
			}
		}
	}
	return inner, ""
}

func sliceElemType(t types.Type) types.Type {
	switch u := t.Underlying().(type) {
	case *types.Slice:
		return u.Elem()
	case *types.Array:
		return u.Elem()
	}
	return nil
}

func exprString(x ast.Expr) string {
	return types.ExprString(x)
}

func (e *SpecEnv) trCall(x *ast.CallExpr) Term {
	fx := e.fx
	name := ""
	switch f := x.Fun.(type) {
	case *ast.Ident:
		name = f.Name
	case *ast.SelectorExpr:
		if id, ok := f.X.(*ast.Ident); ok {
			name = id.Name + "." + f.Sel.Name
		}
	}
	args := x.Args
	need := func(n int) {
		if len(args) != n {
			e.fail("%s expects %d arguments", name, n)
		}
	}
	switch name {
	case "forall", "exists":
		if len(args) < 3 || len(args)%2 != 1 {
			e.fail("%s(x, T, ..., body)", name)
		}
		sub := e.child()
		var binds []string
		for i := 0; i+1 < len(args); i += 2 {
			id, ok := args[i].(*ast.Ident)
			if !ok {
				e.fail("quantifier variable must be an identifier")
			}
			srt, t := fx.typeFromString(exprString(args[i+1]), e.pkgOrDefault())
			fx.nq++
			v := fmt.Sprintf("%s!q%d", id.Name, fx.nq)
			binds = append(binds, "("+v+" "+srt+")")
			sub.bound[id.Name] = Term{S: v, Sort: srt, T: t}
		}
		// trig(p1, ..., pn, body): explicit instantiation pattern
		last := args[len(args)-1]
		if c, ok := last.(*ast.CallExpr); ok {
			if id, ok := c.Fun.(*ast.Ident); ok && id.Name == "trig" && len(c.Args) >= 2 {
				var pats []string
				for _, pa := range c.Args[:len(c.Args)-1] {
					pats = append(pats, sub.tr(pa).S)
				}
				body := sub.Bool(c.Args[len(c.Args)-1])
				return Term{S: "(" + name + " (" + strings.Join(binds, " ") + ") (! " + body + " :pattern (" + strings.Join(pats, " ") + ")))", Sort: "Bool"}
			}
		}
		body := sub.Bool(last)
		return Term{S: "(" + name + " (" + strings.Join(binds, " ") + ") " + body + ")", Sort: "Bool"}
	case "imp":
		need(2)
		return Term{S: imp(e.Bool(args[0]), e.Bool(args[1])), Sort: "Bool"}
	case "iff":
		need(2)
		return Term{S: eq(e.Bool(args[0]), e.Bool(args[1])), Sort: "Bool"}
	case "ite":
		need(3)
		a, b := e.unify(e.tr(args[1]), e.tr(args[2]))
		return Term{S: ite(e.Bool(args[0]), a.S, b.S), Sort: a.Sort, T: a.T}
	case "old":
		need(1)
		sub := *e
		if sub.now == nil {
			sub.now = e.cur
		}
		sub.cur = e.old
		return sub.tr(args[0])
	case "has":
		need(2)
		m := e.tr(args[0])
		if mi, ok := fx.reg.maps[m.Sort]; ok {
			k := e.coerce(e.tr(args[1]), mi.K)
			return Term{S: sel(sel(fx.H(e.cur, mi.Dom), m.S), k.S), Sort: "Bool"}
		}
		if strings.HasPrefix(m.Sort, "(Array ") {
			ks, _ := arraySorts(m.Sort)
			k := e.coerce(e.tr(args[1]), ks)
			return Term{S: sel(m.S, k.S), Sort: "Bool"}
		}
		e.fail("has: not a map or set: %s", m.Sort)
	case "in":
		need(2)
		s := e.tr(args[1])
		ks, _ := arraySorts(s.Sort)
		k := e.coerce(e.tr(args[0]), ks)
		return Term{S: sel(s.S, k.S), Sort: "Bool"}
	case "dom":
		need(1)
		m := e.tr(args[0])
		mi, ok := fx.reg.maps[m.Sort]
		if !ok {
			e.fail("dom: not a map")
		}
		return Term{S: sel(fx.H(e.cur, mi.Dom), m.S), Sort: "(Array " + mi.K + " Bool)"}
	case "vals":
		need(1)
		m := e.tr(args[0])
		mi, ok := fx.reg.maps[m.Sort]
		if !ok {
			e.fail("vals: not a map")
		}
		return Term{S: sel(fx.H(e.cur, mi.Val), m.S), Sort: "(Array " + mi.K + " " + mi.V + ")"}
	case "unchanged":
		need(1)
		m := e.tr(args[0])
		mi, ok := fx.reg.maps[m.Sort]
		if !ok {
			e.fail("unchanged: not a map")
		}
		return Term{S: and(eq(sel(fx.H(e.cur, mi.Dom), m.S), sel(fx.H(e.old, mi.Dom), m.S)), eq(sel(fx.H(e.cur, mi.Val), m.S), sel(fx.H(e.old, mi.Val), m.S))), Sort: "Bool"}
	case "allocated", "fresh", "existed":
		need(1)
		r := e.tr(args[0])
		srt := r.Sort
		sterm := r.S
		if srt == "Slice" {
			srt, sterm = "SRef", "(sref "+r.S+")"
		}
		al, ok := fx.reg.allocOf[srt]
		if !ok {
			e.fail("%s: not a reference: %s", name, r.Sort)
		}
		if name == "allocated" {
			return Term{S: sel(fx.H(e.cur, al), sterm), Sort: "Bool"}
		}
		if name == "existed" { // the object (current value of the expression) was already allocated in the old state
			return Term{S: sel(fx.H(e.old, al), sterm), Sort: "Bool"}
		}
		return Term{S: and(not(sel(fx.H(e.old, al), sterm)), sel(fx.H(e.cur, al), sterm)), Sort: "Bool"}
	case "captured":
		// captured(fn, "funcKey$n", "var"): the value variable var had when closure fn (literal funcKey$n) was created
		need(3)
		fnv := e.tr(args[0])
		lk, _ := strconv.Unquote(exprString(args[1]))
		vn, _ := strconv.Unquote(exprString(args[2]))
		li := fx.ctx.funcs[lk]
		if li == nil || li.Lit == nil {
			e.fail("captured: unknown literal %q", lk)
		}
		lfx := &FuncExec{ctx: fx.ctx, reg: fx.reg, pkg: li.Pkg, info: li.Pkg.TypesInfo, fi: li}
		for _, v := range lfx.freeVars(li.Lit) {
			if v.Name() == vn {
				uf := "cap_" + sanitize(lk) + "_" + vn
				vs := fx.reg.SortOf(v.Type())
				fx.reg.declFun(uf, fmt.Sprintf("(declare-fun %s (Fn) %s)", uf, vs))
				return Term{S: "(" + uf + " " + fnv.S + ")", Sort: vs, T: v.Type()}
			}
		}
		e.fail("captured: literal %s does not capture %s", lk, vn)
	case "methodval":
		// methodval("pkg.(T).M", recv): the method value recv.M
		need(2)
		mk, _ := strconv.Unquote(exprString(args[0]))
		recv := e.tr(args[1])
		name := "mv_" + sanitize(mk)
		fx.reg.declFun(name, fmt.Sprintf("(declare-fun %s (%s) Fn)", name, recv.Sort))
		return Term{S: "(" + name + " " + recv.S + ")", Sort: "Fn"}
	case "fncode":
		// fncode(fn) == litcode("funcKey$n"): fn is a closure of that literal
		need(1)
		fnv := e.tr(args[0])
		fx.reg.declFun("fn_code", "(declare-fun fn_code (Fn) Int)")
		return Term{S: "(fn_code " + fnv.S + ")", Sort: "Int"}
	case "litcode":
		need(1)
		lk, _ := strconv.Unquote(exprString(args[0]))
		return Term{S: fmt.Sprint(fx.ctx.litCode(lk)), Sort: "Int"}
	case "kept":
		// kept(D1, D2, ...): in the heap components named by the designators (as in
		// assigns clauses), every location that was allocated in the old state is unchanged
		var conj []string
		for _, a := range args {
			d := exprString(a)
			if bl, ok := a.(*ast.BasicLit); ok {
				d, _ = strconv.Unquote(bl.Value)
			}
			for _, comp := range fx.compsOf(d, e.pkgOrDefault()) {
				cs := fx.reg.compSort[comp]
				ks, _ := arraySorts(cs)
				al, ok := fx.reg.allocOf[ks]
				if !ok {
					continue // ghost variables etc.
				}
				fx.nq++
				r := fmt.Sprintf("r!q%d", fx.nq)
				cur, old := fx.H(e.cur, comp), fx.H(e.old, comp)
				conj = append(conj, fmt.Sprintf("(forall ((%s %s)) (! (=> (select %s %s) (= (select %s %s) (select %s %s))) :pattern ((select %s %s))))",
					r, ks, fx.H(e.old, al), r, cur, r, old, r, cur, r))
			}
		}
		return Term{S: and(conj...), Sort: "Bool"}
	case "sliceskeptx":
		// sliceskeptx([]T, s): every old backing array except the one of (old) slice s is unchanged,
		// and the elements of s below its old length are unchanged
		need(2)
		_, t := fx.typeFromString(exprString(args[0]), e.pkgOrDefault())
		et := sliceElemType(t)
		if et == nil {
			e.fail("sliceskeptx: not a slice type")
		}
		comp := fx.reg.sliceComp(et)
		sub := *e
		if sub.now == nil {
			sub.now = e.cur
		}
		sub.cur = e.old
		sv := sub.tr(args[1])
		fx.nq++
		r := fmt.Sprintf("r!q%d", fx.nq)
		i := fmt.Sprintf("i!q%d", fx.nq)
		cur, old := fx.H(e.cur, comp), fx.H(e.old, comp)
		return Term{S: and(
			fmt.Sprintf("(forall ((%s SRef)) (! (=> (and (select %s %s) (not (= %s (sref %s)))) (= (select %s %s) (select %s %s))) :pattern ((select %s %s))))",
				r, fx.H(e.old, "AL_SRef"), r, r, sv.S, cur, r, old, r, cur, r),
			fmt.Sprintf("(forall ((%s Int)) (=> (and (<= (soff %s) %s) (< %s (+ (soff %s) (slen %s)))) (= (select (select %s (sref %s)) %s) (select (select %s (sref %s)) %s))))",
				i, sv.S, i, i, sv.S, sv.S, cur, sv.S, i, old, sv.S, i)), Sort: "Bool"}
	case "sliceskept":
		// sliceskept([]T): every backing array that existed in the old state is unchanged
		need(1)
		_, t := fx.typeFromString(exprString(args[0]), e.pkgOrDefault())
		et := sliceElemType(t)
		if et == nil {
			e.fail("sliceskept: not a slice type")
		}
		comp := fx.reg.sliceComp(et)
		fx.nq++
		r := fmt.Sprintf("r!q%d", fx.nq)
		return Term{S: fmt.Sprintf("(forall ((%s SRef)) (! (=> (select %s %s) (= (select %s %s) (select %s %s))) :pattern ((select %s %s))))",
			r, fx.H(e.old, "AL_SRef"), r, fx.H(e.cur, comp), r, fx.H(e.old, comp), r, fx.H(e.cur, comp), r), Sort: "Bool"}
	case "len":
		need(1)
		v := e.tr(args[0])
		return fx.lenTerm(e.cur, v)
	case "add": // set add
		need(2)
		s := e.tr(args[0])
		ks, _ := arraySorts(s.Sort)
		k := e.coerce(e.tr(args[1]), ks)
		return Term{S: store(s.S, k.S, "true"), Sort: s.Sort}
	case "remove":
		need(2)
		s := e.tr(args[0])
		ks, _ := arraySorts(s.Sort)
		k := e.coerce(e.tr(args[1]), ks)
		return Term{S: store(s.S, k.S, "false"), Sort: s.Sort}
	case "update":
		need(3)
		f := e.tr(args[0])
		ks, vs := arraySorts(f.Sort)
		k := e.coerce(e.tr(args[1]), ks)
		v := e.coerce(e.tr(args[2]), vs)
		return Term{S: store(f.S, k.S, v.S), Sort: f.Sort}
	case "emptyset":
		need(1)
		srt, _ := fx.typeFromString(exprString(args[0]), e.pkgOrDefault())
		return Term{S: "((as const (Array " + srt + " Bool)) false)", Sort: "(Array " + srt + " Bool)"}
	case "typeis":
		need(2)
		v := e.tr(args[0])
		_, t := fx.typeFromString(exprString(args[1]), e.pkgOrDefault())
		if types.IsInterface(t) {
			p := fx.reg.ImplPred(shortTypeName(t), t.Underlying().(*types.Interface))
			return Term{S: "(" + p + " (tag " + v.S + "))", Sort: "Bool"}
		}
		b := fx.reg.Box(t)
		return Term{S: eq("(tag "+v.S+")", strconv.Itoa(b.Tag)), Sort: "Bool"}
	case "as":
		need(2)
		v := e.tr(args[0])
		_, t := fx.typeFromString(exprString(args[1]), e.pkgOrDefault())
		b := fx.reg.Box(t)
		return Term{S: "(unbox_" + b.Key + " " + v.S + ")", Sort: b.Sort, T: t}
	case "box":
		need(1)
		v := e.tr(args[0])
		return e.coerce(v, "Any")
	case "strslice":
		need(3)
		fx.reg.declFun("str_slice", "(declare-fun str_slice (Str Int Int) Str)")
		a, lo, hi := e.tr(args[0]), e.tr(args[1]), e.tr(args[2])
		return Term{S: "(str_slice " + a.S + " " + lo.S + " " + hi.S + ")", Sort: "Str", T: types.Typ[types.String]}
	case "lower", "upper":
		need(1)
		v := e.tr(args[0])
		return Term{S: "(str_" + name + " " + v.S + ")", Sort: "Str", T: types.Typ[types.String]}
	case "wrap32", "wrap8":
		need(1)
		v := e.tr(args[0])
		return Term{S: "(" + name + " " + v.S + ")", Sort: "Int", T: types.Typ[types.Int]}
	case "sliceof": // sliceof(s): the (ref,off,len) triple accessors
		need(1)
		return e.tr(args[0])
	case "sref":
		need(1)
		v := e.tr(args[0])
		return Term{S: "(sref " + v.S + ")", Sort: "SRef"}
	case "soff":
		need(1)
		v := e.tr(args[0])
		return Term{S: "(soff " + v.S + ")", Sort: "Int"}
	}
	// ghost functions / ufs
	gname := name
	if g, ok := fx.ctx.spec.Ghosts[gname]; ok {
		if len(args) != len(g.Params) {
			e.fail("%s expects %d arguments", gname, len(g.Params))
		}
		gpkg := fx.ctx.pkgByPath(g.PkgPath)
		var actual []Term
		for i, p := range g.Params {
			srt, t := fx.typeFromString(p.Type, gpkg)
			a := e.coerce(e.tr(args[i]), srt)
			if a.T == nil {
				a.T = t
			}
			actual = append(actual, a)
		}
		rs, rt := fx.typeFromString(g.Result, gpkg)
		if g.Body == nil {
			fx.declUF(g, gpkg)
			var as []string
			for _, a := range actual {
				as = append(as, a.S)
			}
			if len(as) == 0 {
				return Term{S: "uf_" + g.Name, Sort: rs, T: rt}
			}
			return Term{S: "(uf_" + g.Name + " " + strings.Join(as, " ") + ")", Sort: rs, T: rt}
		}
		if e.depth > 40 {
			e.fail("ghost expansion too deep (recursive ghost %s?)", gname)
		}
		if g.Named || (g.NamedX && fx.pkg.PkgPath != g.PkgPath) {
			return e.namedGhost(g, gpkg, actual, rs, rt)
		}
		sub := &SpecEnv{fx: fx, cur: e.cur, old: e.old, now: e.now, bound: map[string]Term{}, pkg: gpkg, depth: e.depth + 1, where: e.where + ">" + gname}
		for i, p := range g.Params {
			sub.bound[p.Name] = actual[i]
		}
		r := sub.tr(g.Body)
		r = sub.coerce(r, rs)
		if r.T == nil {
			r.T = rt
		}
		return r
	}
	e.fail("unknown spec function %q", name)
	return Term{}
}

func (e *SpecEnv) pkgOrDefault() *types.Package {
	if e.pkg != nil {
		return e.pkg
	}
	return e.fx.pkg.Types
}

func (fx *FuncExec) declUF(g *GhostFunc, gpkg *types.Package) {
	n := "uf_" + g.Name
	if fx.reg.declared[n] {
		return
	}
	var ps []string
	for _, p := range g.Params {
		s, _ := fx.typeFromString(p.Type, gpkg)
		ps = append(ps, s)
	}
	rs, _ := fx.typeFromString(g.Result, gpkg)
	fx.reg.declFun(n, fmt.Sprintf("(declare-fun %s (%s) %s)", n, strings.Join(ps, " "), rs))
}


// namedDef is the translation of a pred: a function symbol over the heap
// components its body reads plus its parameters, with a defining axiom.
type namedDef struct {
	fn    string
	comps []string // heap components (registry names) passed, in order
	olds  []string // heap components of the old state passed after them
}

// namedGhost translates an application of a pred. The body is translated
// once against placeholder heap components; the components that occur become
// leading parameters of the function symbol, so that two applications in
// states that agree on those components are syntactically the same atom and
// the solver unfolds the definition only when it has to.
func (e *SpecEnv) namedGhost(g *GhostFunc, gpkg *types.Package, actual []Term, rs string, rt types.Type) Term {
	fx := e.fx
	r := fx.reg
	if r.named == nil {
		r.named = map[string]*namedDef{}
	}
	nd := r.named[g.Name]
	if nd == nil {
		var body string
		var used, usedOld []string
		for attempt := 0; ; attempt++ {
			T := &State{vars: map[string]string{}}
			O := &State{vars: map[string]string{}}
			for comp := range r.compSort {
				T.vars[comp] = "HP_" + comp
				O.vars[comp] = "HO_" + comp
			}
			sub := &SpecEnv{fx: fx, cur: T, old: O, now: T, bound: map[string]Term{}, pkg: gpkg, depth: e.depth + 1, where: e.where + ">" + g.Name}
			for i, p := range g.Params {
				srt, t := fx.typeFromString(p.Type, gpkg)
				sub.bound[p.Name] = Term{S: fmt.Sprintf("PP_%s_%d", g.Name, i), Sort: srt, T: t}
			}
			bt := sub.coerce(sub.tr(g.Body), rs)
			body = bt.S
			syms := map[string]bool{}
			symbolsOf(body, syms)
			late := false
			used, usedOld = used[:0], usedOld[:0]
			for sy := range syms {
				if strings.HasPrefix(sy, "H0_") {
					late = true
				}
				if strings.HasPrefix(sy, "HP_") {
					used = append(used, strings.TrimPrefix(sy, "HP_"))
				}
				if strings.HasPrefix(sy, "HO_") {
					usedOld = append(usedOld, strings.TrimPrefix(sy, "HO_"))
				}
			}
			if !late {
				break
			}
			if attempt > 3 {
				e.fail("pred %s: body reads heap components that cannot be parameterised", g.Name)
			}
		}
		sort.Strings(used)
		sort.Strings(usedOld)
		fn := "gd_" + g.Name
		var binders, psorts, args []string
		for _, c := range used {
			binders = append(binders, fmt.Sprintf("(HP_%s %s)", c, r.compSort[c]))
			psorts = append(psorts, r.compSort[c])
			args = append(args, "HP_"+c)
		}
		for _, c := range usedOld {
			binders = append(binders, fmt.Sprintf("(HO_%s %s)", c, r.compSort[c]))
			psorts = append(psorts, r.compSort[c])
			args = append(args, "HO_"+c)
		}
		for i, p := range g.Params {
			srt, _ := fx.typeFromString(p.Type, gpkg)
			binders = append(binders, fmt.Sprintf("(PP_%s_%d %s)", g.Name, i, srt))
			psorts = append(psorts, srt)
			args = append(args, fmt.Sprintf("PP_%s_%d", g.Name, i))
		}
		r.declFun(fn, fmt.Sprintf("(declare-fun %s (%s) %s)", fn, strings.Join(psorts, " "), rs))
		app := "(" + fn + " " + strings.Join(args, " ") + ")"
		ax := fmt.Sprintf("(assert (forall (%s) (! (= %s %s) :pattern (%s))))", strings.Join(binders, " "), app, body, app)
		r.axioms = append(r.axioms, ax)
		r.axiomPkg[ax] = g.PkgPath
		if r.namedAxiom == nil {
			r.namedAxiom = map[string]string{}
			r.namedDeps = map[string]map[string]bool{}
		}
		r.namedAxiom[ax] = fn
		deps := map[string]bool{}
		bs := map[string]bool{}
		symbolsOf(body, bs)
		for sy := range bs {
			if strings.HasPrefix(sy, "gd_") {
				deps[sy] = true
			}
		}
		r.namedDeps[fn] = deps
		nd = &namedDef{fn: fn, comps: append([]string(nil), used...), olds: append([]string(nil), usedOld...)}
		r.named[g.Name] = nd
	}
	var as []string
	for _, c := range nd.comps {
		as = append(as, fx.H(e.cur, c))
	}
	if len(nd.olds) > 0 {
		o := e.old
		if o == nil {
			e.fail("pred %s reads the old state, but there is none here", g.Name)
		}
		for _, c := range nd.olds {
			as = append(as, fx.H(o, c))
		}
	}
	for _, a := range actual {
		as = append(as, a.S)
	}
	return Term{S: "(" + nd.fn + " " + strings.Join(as, " ") + ")", Sort: rs, T: rt}
}
